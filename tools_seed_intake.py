#!/usr/bin/env python3
"""Intake of an independently written property-breaking change (from a sub-agent's scratch worktree):
verifies it (suite passes, demo fails with / passes without), stores it under /verif/seeded/<name>/ and
runs the owning checks against it.  usage: tools_seed_intake.py <worktree> <name> [extra check ids]"""
import json, os, shutil, subprocess, sys, tempfile, time
VERIF = os.path.dirname(os.path.abspath(__file__))
PY = '/venv/bin/python'

def sh(cmd, cwd, env=None, timeout=1800):
    e = dict(os.environ)
    e.update(env or {})
    return subprocess.run(cmd, cwd=cwd, env=e, capture_output=True, text=True, timeout=timeout)

def main():
    wt, name = sys.argv[1], sys.argv[2]
    extra = sys.argv[3:]
    seed = os.path.join(wt, 'SEED')
    meta = json.load(open(os.path.join(seed, 'meta.json')))
    pid = meta['property']
    d = tempfile.mkdtemp(prefix='rxseed-', dir=os.environ.get('TMPDIR', '/tmp'))
    rec = {'property': pid, 'summary': meta.get('summary'), 'needs': meta.get('needs'), 'files': meta.get('files'),
           'origin': 'independent sub-agent given only the property text and a scratch worktree', 'verified': {}}
    try:
        subprocess.run(['rsync', '-a', '--exclude', '.git', '--exclude', '__pycache__', '--exclude', '*.egg-info', '/repo/', d + '/'], check=True)
        shutil.copy(os.path.join(seed, 'demo.py'), os.path.join(d, '_demo.py'))
        env = {'PYTHONPATH': d, 'PYTHONHASHSEED': '0'}
        r0 = sh([PY, '_demo.py'], d, env)
        rec['verified']['demo_exit_without_change'] = r0.returncode
        p = sh(['patch', '-p1', '-s', '-i', os.path.join(seed, 'patch.diff')], d)
        if p.returncode != 0:
            print('PATCH FAILED', p.stdout, p.stderr); return 1
        r1 = sh([PY, '_demo.py'], d, env)
        rec['verified']['demo_exit_with_change'] = r1.returncode
        rec['verified']['demo_output_with_change'] = (r1.stdout + r1.stderr)[-600:]
        t = sh([PY, '-m', 'pytest', '-q', '-p', 'no:cacheprovider', '--timeout=900'], d, env)
        rec['verified']['suite_tail'] = t.stdout.strip().splitlines()[-1:] if t.stdout else [t.stderr[-200:]]
        rec['verified']['suite_passes_with_change'] = t.returncode == 0
        ok = r0.returncode == 0 and r1.returncode == 1 and t.returncode == 0
        rec['verified']['accepted'] = ok
        rec['checks'] = [pid] + [x for x in extra if x != pid]
        rec['results'] = {}
        ev = tempfile.mkdtemp(prefix='ev-', dir=d)
        for c in rec['checks']:
            t0 = time.time()
            r = sh([PY, '-m', 'rxverif.run', c, '--tier', 'quick'], VERIF,
                   {'RXSCI_REPO': d, 'VERIF_NO_COVERAGE': '1', 'VERIF_EVIDENCE_DIR': ev, 'VERIF_REPLAY_DIR': ev, 'PYTHONHASHSEED': '0'})
            lines = [ln[:400] for ln in r.stdout.splitlines() if ln.startswith(('VIOLATION', '  kind=', 'INCONCLUSIVE'))][:3]
            rec['results'][c] = {'rc': r.returncode, 'caught': r.returncode == 1, 'wall_s': round(time.time() - t0, 1), 'lines': lines}
        rec['what_i_ran'] = ('rsync copy of /repo outside /repo and /verif; demo.py on the clean copy (exit %s); patch -p1; demo.py (exit %s); '
                             'full pytest suite on the patched copy (%s); quick checks %s with RXSCI_REPO=<copy>; copy removed'
                             % (r0.returncode, r1.returncode, 'passes' if t.returncode == 0 else 'FAILS', rec['checks']))
        out = os.path.join(VERIF, 'seeded', name)
        os.makedirs(out, exist_ok=True)
        shutil.copy(os.path.join(seed, 'patch.diff'), os.path.join(out, 'patch.diff'))
        shutil.copy(os.path.join(seed, 'demo.py'), os.path.join(out, 'demo.py'))
        json.dump(rec, open(os.path.join(out, 'meta.json'), 'w'), indent=1)
        print(name, 'accepted' if ok else 'NOT ACCEPTED', json.dumps(rec['verified'])[:300])
        for c, v in rec['results'].items():
            print('   ', c, 'CAUGHT' if v['caught'] else 'missed rc=%s' % v['rc'], v['wall_s'], v['lines'][:2])
    finally:
        shutil.rmtree(d, ignore_errors=True)
    return 0

if __name__ == '__main__':
    sys.exit(main())

import rx, random, os, tempfile, sys, collections, logging
import rxsci.container.csv as csv
logging.disable(logging.CRITICAL)
def rt(rows, dtype, sep=',', esc='\\'):
    X=collections.namedtuple('x',[d[0] for d in dtype])
    lines=[]; out=[]; err=[]
    rx.from_([X(*r) for r in rows]).pipe(csv.dump(separator=sep, escapechar=esc)).subscribe(lines.append)
    text=''.join(lines)
    parser=csv.create_line_parser(dtype=dtype, separator=sep, escapechar=esc)
    try:
        rx.from_(text.split('\n')[:-1]).pipe(csv.load(parser)).subscribe(on_next=out.append, on_error=err.append)
    except Exception as e: err.append(e)
    return out, err, text
rng=random.Random(5)
alpha=['a','b',' ',',','"','\\',';','|','x']
classes=collections.Counter(); ex={}
for t in range(20000):
    ncol=rng.randint(1,4)
    sep=rng.choice([',',';','|','\t','::'])
    dtype=[(f'c{i}','str') for i in range(ncol)]
    rows=[[ ''.join(rng.choice(alpha+[sep]) for _ in range(rng.randint(0,4))) for _ in range(ncol)] for _ in range(rng.randint(1,2))]
    out,err,text=rt(rows,dtype,sep)
    ok = not err and [list(o) for o in out]==rows
    if not ok:
        # classify
        anysep=any(sep in f for r in rows for f in r)
        endesc=any(f.endswith('\\') for r in rows for f in r)
        k=(anysep,endesc, 'err' if err else 'diff')
        classes[k]+=1
        ex.setdefault(k,[]).append((rows,sep,text,out,err[:1]))
print(classes)
for k,v in ex.items():
    print(k)
    for e in v[:6]: print('   ',e)

import rx, rxsci as rs, random, copy, sys, io, traceback
import rx.operators as ops

# type tags: 'i' int, 'f' float, 't' tuple(int,int), 'l' list[int], 'o' optional int
def gen_op(rng, t, depth, in_tee=False, after_take=False):
    """returns (desc, builder, out_type, flags)"""
    c=[]
    if t=='i':
        k=rng.randint(1,4)
        c += [
          (f'map(+{k})', lambda: rs.ops.map(lambda i: i+k), 'i'),
          (f'map(%{k+1})', lambda: rs.ops.map(lambda i: i%(k+1)), 'i'),
          ('map(pair)', lambda: rs.ops.map(lambda i: (i, i+1)), 't'),
          (f'map(rep{k})', lambda: rs.ops.map(lambda i: [i]*(i%k)), 'l'),
          ('map(opt)', lambda: rs.ops.map(lambda i: None if i%3==0 else i), 'o'),
          (f'filter(%{k+1}==0)', lambda: rs.ops.filter(lambda i: i%(k+1)==0), 'i'),
          (f'filter(>{k})', lambda: rs.ops.filter(lambda i: i>k), 'i'),
          ('scan(sum)', lambda: rs.ops.scan(lambda a,i: a+i, 0), 'i'),
          ('scan(sum,reduce)', lambda: rs.ops.scan(lambda a,i: a+i, 0, reduce=True), 'i'),
          ('scan(append)', lambda: rs.ops.scan(lambda a,i: a+[i], []), 'l'),
          ('scan(append_mut,reduce)', lambda: rs.ops.scan(lambda a,i: (a.append(i), a)[1], list, reduce=True), 'l'),
          ('count', lambda: rs.ops.count(), 'i'),
          ('count(r)', lambda: rs.ops.count(reduce=True), 'i'),
          ('sum', lambda: rs.math.sum(), 'f'),
          ('sum(r)', lambda: rs.math.sum(reduce=True), 'f'),
          ('mean', lambda: rs.math.mean(), 'f'),
          ('min', lambda: rs.math.min(), 'i'),
          ('max(r)', lambda: rs.math.max(reduce=True), 'o'),
          ('variance', lambda: rs.math.variance(), 'f'),
          ('stddev(r)', lambda: rs.math.stddev(reduce=True), 'f'),
          ('fvariance(r)', lambda: rs.math.formal.variance(reduce=True), 'f'),
          ('fstddev', lambda: rs.math.formal.stddev(), 'f'),
          (f'clip(1,{k+2})', lambda: rs.data.clip(1,k+2), 'i'),
          ('duc', lambda: rs.ops.distinct_until_changed(), 'i'),
          (f'duc(%{k+1})', lambda: rs.ops.distinct_until_changed(lambda i: i%(k+1)), 'i'),
          ('to_array', lambda: rs.data.to_array('q'), 'l'),
          ('assert_', lambda: rs.ops.assert_(lambda i: i > -1000), 'i'),
          ('assert_1', lambda: rs.ops.assert_1(lambda a,b: True), 'i'),
        ]
    if t=='f':
        c += [
          ('map(round)', lambda: rs.ops.map(lambda i: int(i)), 'i'),
          ('sum', lambda: rs.math.sum(), 'f'),
          ('variance(r)', lambda: rs.math.variance(reduce=True), 'f'),
          ('max', lambda: rs.math.max(), 'f'),
        ]
    if t=='t':
        c += [('starmap(add)', lambda: rs.ops.starmap(lambda a,b: a+b), 'i'),
              ('map(t0)', lambda: rs.ops.map(lambda i: i[0]), 'i'),]
    if t=='l':
        c += [('flat_map', lambda: rs.ops.flat_map(), 'i'),
              ('map(len)', lambda: rs.ops.map(len), 'i'),]
    if t=='o':
        c += [('fill_none(7)', lambda: rs.data.fill_none(7), 'i'),
              ('map(isnone)', lambda: rs.ops.map(lambda i: 0 if i is None else i), 'i')]
    # generic
    n=rng.randint(0,3)
    c += [
      ('identity', lambda: rs.ops.identity(), t),
      ('do_action', lambda: rs.ops.do_action(on_next=lambda i: None), t),
      (f'take({n})', lambda: rs.ops.take(n), t),
      (f'batch({n+2})', lambda: rs.data.batch(n+2), 'L'),
      ('progress', lambda: rs.ops.progress('p', 2, measure_throughput=False), t),
    ]
    if not (in_tee and after_take):
        c += [('to_list', lambda: rs.data.to_list(), 'L'),]
    # first/last only when can't be empty? handle by discard on exception
    c += [('first', lambda: rs.ops.first(), t)]
    if not (in_tee and after_take):
        c += [('last', lambda: rs.ops.last(), t)]
    if depth>0:
        c += [('TEE', None, None)]
    return rng.choice(c)

COMPLETION = ('to_list','last','(r)','reduce','batch','to_array')
def gen_pipe(rng, t, length, depth, in_tee=False):
    descs=[]; builders=[]; after_take=False
    for _ in range(length):
        while True:
            d,b,ot = gen_op(rng, t, depth, in_tee, after_take)
            if in_tee and after_take and any(x in d for x in COMPLETION): continue
            if t=='L' : 
                # list of T: only generic ops or map(len)
                pass
            break
        if d=='TEE':
            nb=rng.randint(2,3); join=rng.choice(['zip','merge','combine_latest'])
            brs=[gen_pipe(rng,t,rng.randint(1,2),depth-1,True) for _ in range(nb)]
            descs.append(('tee',join,[x[0] for x in brs]))
            bb=[x[1] for x in brs]
            builders.append(lambda bb=bb,join=join: rs.ops.tee_map(*[rx.pipe(*[f() for f in b]) for b in bb], join=join))
            t='X'  # unknown tuple type; only generic afterwards
        else:
            descs.append(d); builders.append(b); t=ot
        if d.startswith('take') or d=='first': after_take=True
        if t in ('L','X'):
            # restrict: only generic ops can follow -> emulate by type with no specific ops
            pass
    return descs, builders

class Snap:
    def __init__(self): self.out=[]; self.err=None; self.done=False
    def on_next(self,i): self.out.append(copy.deepcopy(i))
    def on_error(self,e): self.err=e
    def on_completed(self): self.done=True

def tap(rec):
    def _tap(source):
        def on_subscribe(observer, scheduler):
            def on_next(i):
                if type(i) is rs.OnNextMux: rec.append((i.key, copy.deepcopy(i.item)))
                observer.on_next(i)
            return source.subscribe(on_next=on_next, on_error=observer.on_error, on_completed=observer.on_completed, scheduler=scheduler)
        return rs.MuxObservable(on_subscribe)
    return _tap

def norm(x):
    from array import array
    if isinstance(x, array): return ('arr', list(x))
    if isinstance(x, (list,tuple)): return type(x)(norm(y) for y in x)
    return x

def main(seed, N):
    rng=random.Random(seed)
    stats=dict(ok=0, discard=0, bad=0)
    for case in range(N):
        descs,builders = gen_pipe(rng,'i',rng.randint(1,4),2)
        ngroups=rng.randint(1,4)
        items=[rng.randint(0,12) for _ in range(rng.randint(1,14))]
        keyf=lambda i: i%ngroups
        groups={}
        for i in items: groups.setdefault(keyf(i),[]).append(i)
        # plain
        plain={}; discard=False
        sink=io.StringIO(); old=sys.stdout; sys.stdout=sink
        try:
            for g,its in groups.items():
                s=Snap()
                try:
                    rx.from_(its).pipe(*[b() for b in builders]).subscribe(s)
                except Exception as e:
                    s.err=e
                plain[g]=s
            rec=[]
            s=Snap()
            try:
                rx.from_(items).pipe(rs.state.with_memory_store([rs.ops.group_by(keyf, [b() for b in builders]+[tap(rec)])])).subscribe(s)
            except Exception as e:
                s.err=('raised',e, traceback.format_exc())
        finally:
            sys.stdout=old
        # bucket by group: group index -> order of first appearance
        order=list(groups.keys())
        mux={g:[] for g in order}
        for k,it in rec: mux[order[k[0]]].append(it)
        perr=[g for g in order if plain[g].err is not None]
        if perr:
            stats['discard']+=1
            if s.err is None and not all('SequenceContainsNoElements' in repr(type(plain[g].err)) or isinstance(plain[g].err,ZeroDivisionError) for g in perr):
                print("PLAIN ERR but mux fine", descs, items, [repr(plain[g].err) for g in perr])
            continue
        if s.err is not None:
            stats['bad']+=1; print("MUX ERR", descs, items, ngroups, s.err); continue
        ok=all(norm(plain[g].out)==norm(mux[g]) for g in order)
        if ok: stats['ok']+=1
        else:
            stats['bad']+=1
            print("DIFF", descs, 'items',items,'ng',ngroups)
            for g in order:
                if norm(plain[g].out)!=norm(mux[g]): print("   g",g,groups[g],'plain',plain[g].out,'mux',mux[g])
    print(stats)
main(int(sys.argv[1]), int(sys.argv[2]))

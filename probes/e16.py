import rx, rxsci as rs, random, itertools, sys
from datetime import datetime, timedelta
def ref(items, ts, at, it, closing, include):
    wins=[]; cur=None; start=last=None
    for x in items:
        t=ts(x)
        if cur is None: cur=[]; start=last=t
        exp=(at is not None and t>=start+at) or (it is not None and t>=last+it)
        if exp:
            wins.append(cur); cur=[x]; start=last=t
        elif closing is not None and closing(x) is True:
            if include: cur.append(x); wins.append(cur); cur=[]
            else: wins.append(cur); cur=[x]
            start=last=t
        else:
            cur.append(x); last=t
    if cur is not None: wins.append(cur)
    return [w for w in wins if w]
def run(items, **kw):
    out=[];err=[]
    rx.from_(items).pipe(rs.state.with_memory_store([rs.data.time_split(pipeline=[rs.data.to_list()], **kw)])).subscribe(on_next=out.append,on_error=err.append)
    assert not err, err
    return [w for w in out if w]
bad=0; n=0
AT=4; IT=2
gaps=[0,1,2,3,4,5]
for L in range(0,6):
    for gs in itertools.product(gaps, repeat=L):
        ts=[]; t=10
        for g in gs: t+=g; ts.append(t)
        items=[(t,i) for i,t in enumerate(ts)]
        for at in (None,AT):
            for it in (None,IT):
                for cm in (None, lambda x: x[1]%2==0, lambda x: x[1] in (0,1)):
                    for inc in (True,False):
                        if cm is None and not inc: continue
                        n+=1
                        got=run(items, time_mapper=lambda x:x[0], active_timeout=at, inactive_timeout=it, closing_mapper=cm, include_closing_item=inc)
                        exp=ref(items, lambda x:x[0], at, it, cm, inc)
                        if got!=exp:
                            bad+=1
                            if bad<5: print("DIFF",items,at,it,inc,got,exp)
print(n,bad)
# datetime + group_by interleaving
rng=random.Random(1); bad=0
for c in range(500):
    base=datetime(2020,1,1)
    items=[]; t={0:0,1:0,2:0}
    for i in range(rng.randint(0,25)):
        k=rng.randint(0,2); t[k]+=rng.choice([0,1,2,3,4,5]); items.append((k, base+timedelta(seconds=t[k]), i))
    at=rng.choice([None,timedelta(seconds=4)]); it=rng.choice([None,timedelta(seconds=2)]); inc=rng.choice([True,False])
    cm=rng.choice([None, lambda x: x[2]%3==0])
    out=[]
    rx.from_(items).pipe(rs.state.with_memory_store([rs.ops.group_by(lambda x:x[0],[rs.data.time_split(time_mapper=lambda x:x[1],active_timeout=at,inactive_timeout=it,closing_mapper=cm,include_closing_item=inc,pipeline=[rs.data.to_list()])])])).subscribe(out.append)
    got={}
    for w in out:
        if w: got.setdefault(w[0][0],[]).append(w)
    exp={}
    for k in (0,1,2):
        r=ref([x for x in items if x[0]==k], lambda x:x[1], at, it, cm, inc)
        if r: exp[k]=r
    if got!=exp: bad+=1; print("GDIFF",items,got,exp)
print("group bad",bad)

import zstandard, zlib, gzip, io
c = zstandard.ZstdCompressor().compressobj()
data = c.compress(b'hello'*10) + c.flush()
d = zstandard.ZstdDecompressor().decompressobj()
print(d.decompress(data), d.eof)
try:
    print("after eof empty:", d.decompress(b''))
except Exception as e: print("ERR after eof:", type(e), e)
d = zstandard.ZstdDecompressor().decompressobj()
print("empty before:", d.decompress(b''), d.eof)
# byte-by-byte
d = zstandard.ZstdDecompressor().decompressobj()
out=b''
for i in range(len(data)):
    out += d.decompress(data[i:i+1])
print(out==b'hello'*10, d.eof, d.flush())
# empty input
c = zstandard.ZstdCompressor().compressobj()
e = c.flush(); print("empty frame", e)
d = zstandard.ZstdDecompressor().decompressobj(); print(d.decompress(e), d.eof)
# trailing data after frame
d = zstandard.ZstdDecompressor().decompressobj()
print(d.decompress(data+b'xyz'), d.eof, d.unused_data)
# zlib
co = zlib.compressobj(wbits=zlib.MAX_WBITS|16); g = co.compress(b'abc')+co.flush()
do = zlib.decompressobj(wbits=zlib.MAX_WBITS|16); print(do.decompress(g), do.eof, do.decompress(b''), do.flush())
print(gzip.decompress(g))
# large incompressible > buffer sizes
import os
big = os.urandom(1<<20)
c = zstandard.ZstdCompressor().compressobj(); z = c.compress(big)+c.flush()
d = zstandard.ZstdDecompressor().decompressobj(); 
out = d.decompress(z[:1000]); out += d.decompress(z[1000:]); print(out==big, d.eof)
print(zstandard.__version__)

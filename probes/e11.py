import rx, rxsci as rs, random, io, sys, itertools
def run(src, *p, mux=True):
    out=[]; err=[]
    old=sys.stdout; sys.stdout=io.StringIO()
    try:
        if mux: rx.from_(src).pipe(rs.state.with_memory_store(list(p))).subscribe(on_next=out.append, on_error=err.append)
        else: rx.from_(src).pipe(*p).subscribe(on_next=out.append, on_error=err.append)
    finally: sys.stdout=old
    return out if not err else ('ERR',repr(err[0]))
rng=random.Random(2); bad=0
def ref_lag(xs,n): return [ (xs[max(0,i-n)], xs[i]) for i in range(len(xs))]
def ref_duc(xs): 
    o=[]
    for i,x in enumerate(xs):
        if i==0 or x!=xs[i-1]: o.append(x)
    return o
def ref_distinct(xs):
    s=[];o=[]
    for x in xs:
        if x not in s: s.append(x); o.append(x)
    return o
def ref_batch(xs,n): return [xs[i:i+n] for i in range(0,len(xs),n)]
seen=set()
for t in range(4000):
    xs=[rng.choice([0,1,2,3,None]) for _ in range(rng.randint(0,8))]
    n=rng.randint(0,4)
    checks=[
     ('take',run(xs,rs.ops.take(n)), xs[:n]),
     ('first',run(xs,rs.ops.first()), xs[:1]),
     ('last',run(xs,rs.ops.last()), xs[-1:]),
     ('distinct',run(xs,rs.ops.distinct()), ref_distinct(xs)),
     ('duc',run(xs,rs.ops.distinct_until_changed()), ref_duc(xs)),
     ('lag',run(xs,rs.data.lag(n)), ref_lag(xs,n)),
     ('pad_start',run(xs,rs.data.pad_start(n)), ([xs[0]]*n+xs) if xs else []),
     ('pad_start_v',run(xs,rs.data.pad_start(n,7)), ([7]*n+xs) if xs else []),
     ('pad_end',run(xs,rs.data.pad_end(n)), (xs+[xs[-1]]*n) if xs else []),
     ('pad_end_v',run(xs,rs.data.pad_end(n,7)), (xs+[7]*n) if xs else []),
     ('start_with',run(xs,rs.ops.start_with([8,9])), ([8,9]+xs) if xs else []),
    ]
    if n>=1: checks.append(('batch',run(xs,rs.data.batch(n)), ref_batch(xs,n)))
    ys=[(rng.randint(0,3),i) for i in range(rng.randint(0,8))]
    checks.append(('sort',run(ys,rs.data.sort(key=lambda t:t[0]),mux=False), sorted(ys,key=lambda t:t[0])))
    checks.append(('sortr',run(ys,rs.data.sort(key=lambda t:t[0],reverse=True),mux=False), sorted(ys,key=lambda t:t[0],reverse=True)))
    for name,got,exp in checks:
        if got!=exp:
            k=(name, 'n=%d'%n if name in('lag','take') else '')
            if k not in seen:
                seen.add(k); print(name,n,xs if 'sort' not in name else ys,'got',got,'exp',exp)

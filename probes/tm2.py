"""prototype causal model (mux mode): op(values) -> [(trig, value)], trig in 0..n (n = key completion)"""
import copy
def m_map(f): return lambda xs: [(i,f(v)) for i,v in enumerate(xs)]
def m_filter(f): return lambda xs: [(i,v) for i,v in enumerate(xs) if f(v)]
def m_scan(acc, seed, reduce=False, term=None):
    def op(xs):
        a = seed() if callable(seed) else copy.deepcopy(seed); out=[]; n=len(xs)
        for i,v in enumerate(xs):
            a=acc(a,v)
            if not reduce: out.append((i,copy.deepcopy(a)))
        if term:
            a=term(a)
            if not reduce: out.append((n,copy.deepcopy(a)))
        if reduce: out.append((n,copy.deepcopy(a)))
        return out
    return op
def m_take(k): return lambda xs: [(i,v) for i,v in enumerate(xs)][:k]
def m_last(): return lambda xs: [(len(xs), xs[-1])] if xs else []
def m_to_list(): return lambda xs: [(len(xs), list(xs))]
def m_batch(k):
    def op(xs):
        n=len(xs); out=[]
        for i in range(0,n,k):
            ch=xs[i:i+k]
            out.append((i+k-1 if len(ch)==k else n, ch))
        return out
    return op
def m_pad_end(k,val=None): return lambda xs: [(i,v) for i,v in enumerate(xs)] + ([(len(xs), val if val is not None else xs[-1])]*k if xs else [])
def m_pad_start(k,val=None): return lambda xs: ([(0, val if val is not None else xs[0])]*k if xs else []) + [(i,v) for i,v in enumerate(xs)]
def m_lag(k): return lambda xs: [(i,(xs[max(0,i-k)],xs[i])) for i in range(len(xs))]
def m_pipe(ops):
    def op(xs):
        n=len(xs)
        trig=list(range(n)); vals=list(xs)      # trig[j] = source trigger of current j-th value
        for o in ops:
            out=o(vals); m=len(vals)
            trig=[(trig[t] if t<m else n) for t,_ in out]; vals=[v for _,v in out]
        return list(zip(trig,vals))
    return op
def _merge(parts):
    # parts: list (priority order) of [(trig,val)] -> stable merge by trig
    tagged=[(t,i,j,v) for i,p in enumerate(parts) for j,(t,v) in enumerate(p)]
    tagged.sort(key=lambda x:(x[0],x[1],x[2]))
    return [(t,v) for t,_,_,v in tagged]
def m_roll(w,s,inner):
    def op(xs):
        n=len(xs); parts=[]
        for k in range(0,n,s):
            win=xs[k:k+w]; full=len(win)==w
            o=inner(win)
            parts.append([((k+t) if t<len(win) else (k+w-1 if full else n), v) for t,v in o])
        return _merge(parts)
    return op
def m_split(pred,inner):
    def op(xs):
        n=len(xs); segs=[]
        for i,v in enumerate(xs):
            k=pred(v)
            if segs and not (segs[-1][0]!=k): segs[-1][2].append(v)
            else: segs.append([k,i,[v]])
        parts=[]
        for si,(k,start,vals) in enumerate(segs):
            closing = segs[si+1][1] if si+1<len(segs) else n
            parts.append([((start+t) if t<len(vals) else closing, v) for t,v in inner(vals)])
        # NOTE: outputs at 'closing' of segment si precede outputs of segment si+1 at the same trig -> priority order = segment order
        return _merge(parts)
    return op
def m_group(keyf,inner):
    def op(xs):
        n=len(xs); gs=[]
        for i,v in enumerate(xs):
            k=keyf(v)
            for g in gs:
                if g[0]==k: g[1].append(i); g[2].append(v); break
            else: gs.append((k,[i],[v]))
        return _merge([[ (idx[t] if t<len(vals) else n, v) for t,v in inner(vals)] for _,idx,vals in gs])
    return op
def m_tee(branches, join):
    def op(xs):
        n=len(xs); outs=[b(xs) for b in branches]; nb=len(branches)
        latest=[None]*nb; has=[False]*nb; res=[]
        for t in range(n+1):
            for b in range(nb):
                for tt,v in outs[b]:
                    if tt!=t: continue
                    if join=='merge': res.append((t,v))
                    elif join=='zip':
                        latest[b]=v; has[b]=True
                        if all(has): res.append((t,tuple(latest))); has=[False]*nb; latest=[None]*nb
                    else:
                        latest[b]=v; res.append((t,tuple(latest)))
        return res
    return op

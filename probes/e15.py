import rx, os, tempfile, collections, traceback
import rxsci.container.csv as csv
X=collections.namedtuple('X',['a','b'])
d=tempfile.mkdtemp(dir='/tmp/scratch')
f=os.path.join(d,'t.csv')
for enc in (None,'utf-8'):
    err=[]
    try:
        rx.from_([X(1,'é x'),X(2,'y')]).pipe(csv.dump_to_file(f, encoding=enc)).subscribe(on_error=err.append)
        print(enc,'dump ok',err, open(f,'rb').read())
    except Exception as e:
        print(enc,'dump raised',repr(e))
    out=[];err=[]
    for lenc in (None,'utf-8'):
        csv.load_from_file(f, csv.create_line_parser(dtype=[('a','int'),('b','str')]), encoding=lenc).subscribe(on_next=out.append,on_error=err.append)
        print('  load',lenc,out,err)
# big file crossing 64K
rows=[X(i,'s'*50+str(i)) for i in range(5000)]
rx.from_(rows).pipe(csv.dump_to_file(f, encoding='utf-8')).subscribe()
out=[]
csv.load_from_file(f, csv.create_line_parser(dtype=[('a','int'),('b','str')]), encoding='utf-8').subscribe(on_next=out.append)
print(os.path.getsize(f), len(out), [tuple(o) for o in out]==[tuple(r) for r in rows])
import shutil; shutil.rmtree(d)

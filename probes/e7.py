import rx, rxsci as rs, random, math
from fractions import Fraction as F
eps=2.0**-52
def run(src, *pipeline):
    out=[]
    rx.from_(src).pipe(rs.state.with_memory_store(list(pipeline))).subscribe(on_next=out.append)
    return out
def exact(xs):
    n=len(xs); S=sum(F(x) for x in xs); m=S/n
    v=sum((F(x)-m)**2 for x in xs)
    return S, m, (v/(n-1) if n>1 else F(0)), v/n
random.seed(3)
worst={}
for trial in range(60):
    n=random.choice([2,3,10,100,1000,10000])
    off=random.choice([0,1,1e3,1e6,-1e6,1e9])
    sc=random.choice([1e-8,1e-3,1,1e3,1e8])
    kind=random.choice(['gauss','const','uniform','int'])
    if kind=='gauss': xs=[off+random.gauss(0,sc) for _ in range(n)]
    elif kind=='const': xs=[off+sc]*n
    elif kind=='uniform': xs=[off+random.uniform(-sc,sc) for _ in range(n)]
    else: xs=[int(off)+random.randint(-1000,1000) for _ in range(n)]
    S,m,v,pv=exact(xs)
    absx=sum(abs(F(x)) for x in xs)
    got_sum=run(xs, rs.math.sum(reduce=True))[0]
    got_mean=run(xs, rs.math.mean(reduce=True))[0]
    got_var=run(xs, rs.math.variance(reduce=True))[0]
    got_fvar=run(xs, rs.math.formal.variance(reduce=True))[0]
    # sum bound: (n-1) eps sum|x|
    bs = float((n)*eps*absx) or 1e-300
    r_sum = abs(F(got_sum)-S)/F(bs)
    r_mean= abs(F(got_mean)-m)/F(bs/n)
    # variance: kappa-based
    ms = float(m*m); fv=float(v)
    tolv = n*eps*(fv + math.sqrt(fv*ms) ) + n*eps*eps*ms*4 + 1e-300
    r_var = float(abs(F(got_var)-v))/tolv
    tolf = n*eps*(float(pv) + math.sqrt(float(pv)*ms)) + n*eps*eps*ms*4+ 1e-300
    r_fvar= float(abs(F(got_fvar)-pv))/tolf
    for k,r in (('sum',r_sum),('mean',r_mean),('var',r_var),('fvar',r_fvar)):
        r=float(r)
        if r>worst.get(k,(0,))[0]: worst[k]=(r,n,off,sc,kind)
print(worst)

"""prototype timed model (mux mode) -- scratch only"""
import copy
class M:  # model ops: each takes (evs, end) returns (evs, end); evs list of (pos, val)
    pass
def m_map(f): return lambda evs,end: ([(p,f(v)) for p,v in evs], end)
def m_filter(f): return lambda evs,end: ([(p,v) for p,v in evs if f(v)], end)
def m_scan(acc, seed, reduce=False, term=None):
    def op(evs,end):
        a = seed() if callable(seed) else copy.deepcopy(seed)
        out=[]
        for p,v in evs:
            a=acc(a,v)
            if not reduce: out.append((p,copy.deepcopy(a)))
        if term:
            a=term(a)
            if not reduce: out.append((end,copy.deepcopy(a)))
        if reduce: out.append((end,copy.deepcopy(a)))
        return out,end
    return op
def m_take(n): return lambda evs,end: (evs[:n], end)
def m_last(): return lambda evs,end: (([(end, evs[-1][1])] if evs else []), end)
def m_to_list(): return lambda evs,end: ([(end,[v for _,v in evs])], end)
def m_batch(n):
    def op(evs,end):
        out=[]
        for i in range(0,len(evs),n):
            ch=evs[i:i+n]
            out.append((ch[-1][0] if len(ch)==n else end, [v for _,v in ch]))
        return out,end
    return op
def m_pad_end(n, val=None):
    return lambda evs,end: (evs+[(end, val if val is not None else evs[-1][1])]*n if evs else [], end)
def m_pad_start(n,val=None):
    return lambda evs,end: ([(evs[0][0], val if val is not None else evs[0][1])]*n+evs if evs else [], end)
def m_lag(n): return lambda evs,end: ([(evs[i][0], (evs[max(0,i-n)][1], evs[i][1])) for i in range(len(evs))], end)
def m_pipe(ops):
    def op(evs,end):
        for o in ops: evs,end=o(evs,end)
        return evs,end
    return op
def merge(parts):
    """parts: list of event lists in priority order -> stable merge by pos"""
    tagged=[(p,i,j,v) for i,evs in enumerate(parts) for j,(p,v) in enumerate(evs)]
    tagged.sort(key=lambda t:(t[0],t[1],t[2]))
    return [(p,v) for p,_,_,v in tagged]
def m_roll(w,s,inner):
    def op(evs,end):
        parts=[]
        for k in range(0,len(evs),s):
            win=evs[k:k+w]
            wend = win[-1][0] if len(win)==w else end
            o,_=inner(win,wend); parts.append(o)
        return merge(parts), end
    return op
def m_split(pred,inner):
    def op(evs,end):
        segs=[]; 
        for p,v in evs:
            k=pred(v)
            if segs and not (segs[-1][0]!=k): segs[-1][1].append((p,v))
            else: segs.append((k,[(p,v)]))
        parts=[]
        for i,(k,se) in enumerate(segs):
            send = segs[i+1][1][0][0] if i+1<len(segs) else end
            o,_=inner(se,send); parts.append(o)
        return merge(parts), end
    return op
def m_group(keyf,inner):
    def op(evs,end):
        gs=[]
        for p,v in evs:
            k=keyf(v)
            for g in gs:
                if g[0]==k: g[1].append((p,v)); break
            else: gs.append((k,[(p,v)]))
        return merge([inner(ge,end)[0] for _,ge in gs]), end
    return op
def m_tee(branches, join):
    def op(evs,end):
        outs=[b(evs,end)[0] for b in branches]
        n=len(branches)
        poss=sorted(set(p for o in outs for p,_ in o))
        latest=[None]*n; has=[False]*n; res=[]
        for p in poss:
            for b in range(n):
                for pp,v in outs[b]:
                    if pp!=p: continue
                    if join=='merge': res.append((p,v))
                    elif join=='zip':
                        latest[b]=v; has[b]=True
                        if all(has): res.append((p,tuple(latest))); has=[False]*n; latest=[None]*n
                    else:
                        latest[b]=v; res.append((p,tuple(latest)))
        return res,end
    return op

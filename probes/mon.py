import rx, rxsci as rs
from rxsci.state.state_topology import ProbeStateTopology

class Boundary:
    def __init__(self, name):
        self.name=name; self.events=[]; self.live={}; self.viol=[]; self.done=None
    def ev(self, kind, i=None):
        self.events.append((kind,i))

ALL=[]
class Wrap:
    def __init__(self, obs, b):
        self.o=obs; self.b=b
    def on_next(self, i):
        b=self.b
        t=type(i)
        if t is rs.OnCreateMux:
            if i.key in b.live: b.viol.append(('create-live', i.key))
            for k in b.live:
                if k[0]==i.key[0]: b.viol.append(('slot-share', k, i.key))
            b.live[i.key]=True
            b.events.append(('C',i.key))
        elif t is rs.OnNextMux:
            if i.key not in b.live: b.viol.append(('next-dead', i.key, i.item))
            b.events.append(('N',i.key,i.item))
        elif t is rs.OnCompletedMux:
            if i.key not in b.live: b.viol.append(('completed-dead', i.key))
            else: del b.live[i.key]
            b.events.append(('D',i.key))
        elif t is rs.OnErrorMux:
            if i.key not in b.live: b.viol.append(('error-dead', i.key))
            b.events.append(('E',i.key,repr(i.error)))
        elif t is ProbeStateTopology:
            b.events.append(('P',))
        else:
            b.viol.append(('alien', repr(i)))
        self.o.on_next(i)
    def on_error(self, e):
        self.b.done=('error',repr(e)); self.o.on_error(e)
    def on_completed(self):
        if self.b.live: self.b.viol.append(('stream-completed-with-live', list(self.b.live)))
        self.b.done=('completed',); self.o.on_completed()

_orig = rs.MuxObservable._subscribe_core
def _sc(self, observer, scheduler=None):
    name = getattr(self._subscribe,'__qualname__',None) or repr(self._subscribe)
    b = Boundary(name); ALL.append(b)
    return _orig(self, Wrap(observer,b), scheduler)
def install():
    rs.MuxObservable._subscribe_core=_sc
def reset():
    ALL.clear()

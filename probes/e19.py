import rx, rxsci as rs, random, itertools, sys, io, mon
mon.install()
class Boom(Exception):
    def __init__(s,i): s.i=i
    def __eq__(s,o): return isinstance(o,Boom) and o.i==s.i
    def __repr__(s): return f'Boom({s.i})'
def run(items, pipeline, errors=None):
    out=[];err=[];dl=[];dld=[]
    if errors is not None: errors.subscribe(on_next=dl.append,on_completed=lambda: dld.append(1))
    old=sys.stdout; sys.stdout=io.StringIO()
    try:
        mon.reset()
        rx.from_(items).pipe(rs.state.with_memory_store(pipeline)).subscribe(on_next=out.append,on_error=err.append)
    finally: sys.stdout=old
    return out,err,dl,dld
def mkops(F):
    # items are (key, id, val)
    def chk(x):
        if x[1] in F: raise Boom(x[1])
        return x
    return {
      'map': lambda: rs.ops.map(lambda x: chk(x)),
      'starmap': lambda: rs.ops.starmap(lambda k,i,v: chk((k,i,v))),
      'filter': lambda: rs.ops.filter(lambda x: chk(x)[2]%3!=0),
      'scan': lambda: rs.ops.scan(lambda a,x: (lambda y: (y[0],y[1],a[2]+y[2]) if a else y)(chk(x)), None),
    }
nofault=mkops(set())
down=lambda: rs.ops.scan(lambda a,x: a+x[2], 0)   # stateful downstream
bad=0;n=0
rng=random.Random(1)
for L in range(1,7):
  for trial in range(3):
    items=[(rng.randint(0,1), i, rng.randint(0,9)) for i in range(L)]
    for r in range(0,L+1):
      for F in itertools.combinations(range(L),r):
        F=set(F); ops=mkops(F)
        for name in ops:
            absent=[x for x in items if x[1] not in F]
            # ignore
            exp,_,_,_=run(absent,[rs.ops.group_by(lambda x:x[0],[nofault[name](), down()])])
            got,err,_,_=run(items,[rs.ops.group_by(lambda x:x[0],[ops[name](), rs.error.ignore(), down()])])
            # boundary check: errors count after failing op
            nerr=sum(1 for b in mon.ALL if b.name.startswith({'map':'map_mux','starmap':'map_mux','filter':'filter_mux','scan':'scan_mux'}[name]) for e in b.events if e[0]=='E')
            n+=1
            ok = got==exp and not err
            # scan: first-item failure subtlety -> count separately
            if not ok: bad+=1; print('IGN',name,items,F,got,exp,err) if bad<8 else None
            # router
            errors,route=rs.error.create_error_router()
            got,err,dl,dld=run(items,[rs.ops.group_by(lambda x:x[0],[ops[name](), route(), down()])],errors)
            if got!=exp or err or dl!=[Boom(i) for i in sorted(F)] or dld!=[1]:
                bad+=1; print('RTE',name,items,F,got,exp,err,dl,dld) if bad<8 else None
            # none
            got,err,_,_=run(items,[rs.ops.group_by(lambda x:x[0],[ops[name](), down()])])
            if F:
                if not(len(err)==1 and err[0]==Boom(min(F)) and got==exp[:len(got)]): bad+=1; print('NONE',name,items,F,got,exp,err) if bad<8 else None
            # map handler (only for map op: replace in place)
            if name=='map':
                got,err,_,_=run(items,[rs.ops.group_by(lambda x:x[0],[ops[name](), rs.error.map(lambda e: ('E',e.i,100)), down()])])
                exp2,_,_,_=run([x if x[1] not in F else (x[0],x[1],100) for x in items],[rs.ops.group_by(lambda x:x[0],[nofault[name](), down()])])
                if got!=exp2 or err: bad+=1; print('MAP',items,F,got,exp2,err) if bad<8 else None
print(n,bad)

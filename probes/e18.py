import sys, io
sys.argv=['e5.py','7','0','1']
import mon, rx, rxsci as rs, random
mon.install()
old=sys.stdout; sys.stdout=io.StringIO()
import e5
sys.stdout=old
from e5 import gen_ctx, Snap
rng=random.Random(11); tot=0; viol=0; nb=0; kinds={}
for case in range(3000):
    desc,build=gen_ctx(rng,3)[:2]
    outer=rng.choice([None,'group','roll'])
    items=sorted(rng.randint(0,30) for _ in range(rng.choice([0,0,1,2,5,16])))
    if rng.random()<.5: rng.shuffle(items)
    mon.reset(); s=Snap()
    sys.stdout=io.StringIO()
    try:
        p=build()
        if outer=='group': p=rs.ops.group_by(lambda i:i%3,[p])
        if outer=='roll': p=rs.data.roll(3,2,[p])
        try: rx.from_(items).pipe(rs.state.with_memory_store([p])).subscribe(s)
        except Exception as e: s.err=e
    finally: sys.stdout=old
    if s.err is not None: print("ERR",desc,items,repr(s.err)); continue
    for b in mon.ALL:
        nb+=1; tot+=len(b.events)
        k=b.name.split('.')[0]; kinds[k]=kinds.get(k,0)+1
        if b.viol:
            viol+=1
            if viol<6: print("VIOL",desc,outer,items,b.name,b.viol[:3])
print('boundaries',nb,'events',tot,'violating boundaries',viol)
print(kinds)

import rx, rxsci as rs, random, os, gzip, io, zstandard
def run(src, *ops_):
    out=[]; err=[]; done=[]
    rx.from_(src).pipe(*ops_).subscribe(on_next=out.append, on_error=err.append, on_completed=lambda: done.append(1))
    return out, err, done
rng=random.Random(1)
def chunks(data, rng, k=6, empties=True):
    n=len(data); cuts=sorted(rng.randint(0,n) for _ in range(rng.randint(0,k)))
    res=[]; p=0
    for c in cuts+[n]:
        res.append(data[p:c]); p=c
    return res
stats={}
for name,mod in (('gzip',rs.compression.z),('zstd',rs.compression.zstd)):
    bad=0; trunc_bad=0; trail=0
    for t in range(300):
        xs=[ (os.urandom(rng.randint(0,5000)) if rng.random()<.5 else bytes([rng.randint(0,3)])*rng.randint(0,300000)) for _ in range(rng.randint(0,5))]
        if rng.random()<.1: xs=[]
        comp,err,done=run(xs, mod.compress())
        data=b''.join(comp); orig=b''.join(xs)
        assert not err and done
        # reference decoders
        if name=='gzip': assert gzip.decompress(data)==orig
        else: assert zstandard.ZstdDecompressor().stream_reader(io.BytesIO(data)).read()==orig
        ch=chunks(data,rng)
        out,err,done=run(ch, mod.decompress())
        if b''.join(out)!=orig or err or not done:
            if ch and len(ch[-1])==0 and name=='zstd': trail+=1
            else: bad+=1; print(name,"RT",len(data),[len(c) for c in ch],err)
        # truncation
        for cut in ([rng.randint(0,len(data)-1) for _ in range(5)] if len(data)>200 else range(len(data))):
            out,err,done=run(chunks(data[:cut],rng,3), mod.decompress())
            if done or not err: trunc_bad+=1; print(name,"TRUNC",cut,len(data),done,err)
    print(name,'bad',bad,'trunc_bad',trunc_bad,'trailing-empty-chunk errors',trail)

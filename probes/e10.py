import rx, random, os, tempfile, sys, collections, io
import rxsci as rs
import rxsci.container.json as rjson
import rxsci.container.parquet as rpq
import pyarrow as pa, pyarrow.parquet as pq
def run(obs):
    out=[]; err=[]; done=[]
    obs.subscribe(on_next=out.append, on_error=err.append, on_completed=lambda: done.append(1))
    return out, err, done
rng=random.Random(1)
d=tempfile.mkdtemp(dir='/tmp/scratch')
def rval(depth=0):
    k=rng.randint(0,7 if depth<2 else 5)
    if k==0: return rng.randint(-2**63, 2**63-1)
    if k==1: return rng.uniform(-1e6,1e6)
    if k==2: return rng.choice([True,False,None])
    if k==3: return ''.join(rng.choice('ab"\\\n\r\té€😀 ') for _ in range(rng.randint(0,6)))
    if k==4: return rng.randint(0,10)
    if k==5: return 'x'*rng.randint(0,3000)
    if k==6: return [rval(depth+1) for _ in range(rng.randint(0,3))]
    return {f'k{i}': rval(depth+1) for i in range(rng.randint(0,3))}
bad=0
for t in range(300):
    n=rng.choice([0,1,2,5,50,400])
    objs=[{f'f{i}': rval() for i in range(rng.randint(0,4))} for _ in range(n)]
    comp=rng.choice([None,'gzip','zstd'])
    f=os.path.join(d,'a.json')
    o,e,dn=run(rx.from_(objs).pipe(rjson.dump_to_file(f, compression=comp)))
    if e: print("DUMPERR",e); bad+=1; continue
    o,e,dn=run(rjson.load_from_file(f, compression=comp))
    if o!=objs or e or not dn:
        bad+=1; print("JSON",comp,n,os.path.getsize(f),e, len(o))
print("json bad",bad)
# parquet
schema=pa.schema([('a',pa.int64()),('s',pa.string()),('f',pa.float64()),('st',pa.struct([('x',pa.int32()),('y',pa.string())])),('l',pa.list_(pa.int64()))])
for n,bs in [(0,3),(2,3),(3,3),(4,3),(6,3),(7,3),(5,1),(1,1)]:
    rows=[{'a':i,'s':str(i),'f':i/3,'st':{'x':i,'y':'y'*i},'l':list(range(i%4))} for i in range(n)]
    f=os.path.join(d,'a.parquet')
    o,e,dn=run(rx.from_(rows).pipe(rpq.dump_to_file(f, schema, batch_size=bs)))
    tbl=pq.read_table(f).to_pylist()
    o2,e2,dn2=run(rpq.load_from_file(f, batch_size=2))
    print(n,bs,'err',e,e2,'read_table rows',len(tbl),'load rows',len(o2), 'ok' if tbl==rows and o2==rows else 'MISMATCH', [r['a'] for r in tbl][:20])
import shutil; shutil.rmtree(d)

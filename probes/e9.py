import rx, random, os, tempfile, sys, collections, io
import rxsci as rs
import rxsci.framing.line as line, rxsci.framing.length_prefix as lp
def run(src, *ops_):
    out=[]; err=[]; done=[]
    rx.from_(src).pipe(*ops_).subscribe(on_next=out.append, on_error=err.append, on_completed=lambda: done.append(1))
    return out, err, done
rng=random.Random(1)
def chunks(data, rng, empty=True):
    n=len(data); cuts=sorted(rng.randint(0,n) for _ in range(rng.randint(0,6)))
    res=[]; p=0
    for c in cuts+[n]:
        res.append(data[p:c]); p=c
    if not empty: res=[r for r in res if len(r)]
    return res
bad=0
for t in range(20000):
    items=[''.join(rng.choice('ab \x00\x01é') for _ in range(rng.randint(0,4))) for _ in range(rng.randint(0,5))]
    framed=''.join(run(items, line.frame())[0])
    out,err,done=run(chunks(framed,rng), line.unframe())
    if out!=items or err or not done: bad+=1; print("LINE",items,out,err)
    # lp
    ps=rng.choice([1,2,4,8]); bo=rng.choice(['little','big'])
    bitems=[bytes(rng.choice(b'ab\n\x00\x01\x02') for _ in range(rng.randint(0,5))) for _ in range(rng.randint(0,5))]
    fr=b''.join(run(bitems, lp.frame(ps,bo))[0])
    out,err,done=run(chunks(fr,rng), lp.unframe(ps,bo))
    if out!=bitems or err or not done: bad+=1; print("LP",bitems,out,err)
    # truncated
    if fr:
        cut=rng.randint(0,len(fr)-1)
        out,err,done=run(chunks(fr[:cut],rng), lp.unframe(ps,bo))
        # expected complete frames
        exp=[]; p=0
        for b in bitems:
            p+=ps+len(b)
            if p<=cut: exp.append(b)
        if out!=exp: bad+=1; print("LPTRUNC",bitems,cut,out,exp)
    # codec
    enc=rng.choice(['utf-8','utf-16','utf-32','latin-1'])
    pool='aé€😀́\x00' if enc!='latin-1' else 'aé\x00ÿ'
    strs=[''.join(rng.choice(pool) for _ in range(rng.randint(0,4))) for _ in range(rng.randint(0,5))]
    eb=b''.join(run(strs, rs.data.encode(enc))[0])
    if eb!=''.join(strs).encode(enc) and not (enc in('utf-16','utf-32') and ''.join(strs)==''): bad+=1; print("ENC",enc,strs,eb,''.join(strs).encode(enc))
    out,err,done=run(chunks(eb,rng), rs.data.decode(enc))
    if ''.join(out)!=''.join(strs) or err: bad+=1; print("DEC",enc,strs,out,err)
print("bad",bad)

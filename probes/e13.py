import rx, rxsci as rs, random, copy, sys, io
from rx.subject import Subject
from tm import *
# generator producing paired (impl builder, model op, desc)
def gen(rng, depth, length):
    impl=[]; mod=[]; desc=[]
    for _ in range(length):
        k=rng.randint(1,3)
        choices=['map','filter','scan','sum_r','take','last','to_list_len','batch_len','pad_end','pad_start','lag']
        if depth>0: choices+=['roll','split','group','tee']*2
        c=rng.choice(choices)
        if c=='map': impl.append(lambda k=k: rs.ops.map(lambda i:i+k)); mod.append(m_map(lambda i,k=k:i+k)); desc.append(f'map+{k}')
        elif c=='filter': impl.append(lambda k=k: rs.ops.filter(lambda i:i%(k+1)!=0)); mod.append(m_filter(lambda i,k=k:i%(k+1)!=0)); desc.append(f'filter%{k+1}')
        elif c=='scan': impl.append(lambda: rs.ops.scan(lambda a,i:a+i,0)); mod.append(m_scan(lambda a,i:a+i,0)); desc.append('scan')
        elif c=='sum_r': impl.append(lambda: rs.ops.scan(lambda a,i:a+i,0,reduce=True)); mod.append(m_scan(lambda a,i:a+i,0,reduce=True)); desc.append('sum_r')
        elif c=='take': impl.append(lambda k=k: rs.ops.take(k)); mod.append(m_take(k)); desc.append(f'take{k}')
        elif c=='last': impl.append(lambda: rs.ops.last()); mod.append(m_last()); desc.append('last')
        elif c=='to_list_len': impl.append(lambda: rx.pipe(rs.data.to_list(), rs.ops.map(len))); mod.append(m_pipe([m_to_list(), m_map(len)])); desc.append('to_list_len')
        elif c=='batch_len': impl.append(lambda k=k: rx.pipe(rs.data.batch(k+1), rs.ops.map(sum))); mod.append(m_pipe([m_batch(k+1), m_map(sum)])); desc.append(f'batch{k+1}')
        elif c=='pad_end': impl.append(lambda k=k: rs.data.pad_end(k)); mod.append(m_pad_end(k)); desc.append(f'pad_end{k}')
        elif c=='pad_start': impl.append(lambda k=k: rs.data.pad_start(k,7)); mod.append(m_pad_start(k,7)); desc.append(f'pad_start{k}')
        elif c=='lag': impl.append(lambda k=k: rx.pipe(rs.data.lag(k), rs.ops.map(lambda t:t[0]*100+t[1]))); mod.append(m_pipe([m_lag(k), m_map(lambda t:t[0]*100+t[1])])); desc.append(f'lag{k}')
        elif c in('roll','split','group'):
            ii,mm,dd=gen(rng,depth-1,rng.randint(1,3))
            if c=='roll':
                w=rng.randint(1,4); s=rng.randint(1,4)
                impl.append(lambda ii=ii,w=w,s=s: rs.data.roll(w,s,[f() for f in ii])); mod.append(m_roll(w,s,m_pipe(mm))); desc.append((f'roll{w},{s}',dd))
            elif c=='split':
                impl.append(lambda ii=ii,k=k: rs.data.split(lambda i:(i//(k+1))%2,[f() for f in ii])); mod.append(m_split(lambda i,k=k:(i//(k+1))%2,m_pipe(mm))); desc.append((f'split{k+1}',dd))
            else:
                impl.append(lambda ii=ii,k=k: rs.ops.group_by(lambda i:i%(k+1),[f() for f in ii])); mod.append(m_group(lambda i,k=k:i%(k+1),m_pipe(mm))); desc.append((f'group{k+1}',dd))
        else:
            nb=rng.randint(2,3); join=rng.choice(['zip','merge','combine_latest'])
            brs=[gen(rng,depth-1,rng.randint(1,2)) for _ in range(nb)]
            fl=lambda t: sum((x or 0) for x in t) if isinstance(t,tuple) else t
            impl.append(lambda brs=brs,join=join: rx.pipe(rs.ops.tee_map(*[rx.pipe(*[f() for f in b[0]]) for b in brs], join=join), rs.ops.map(fl)))
            mod.append(m_pipe([m_tee([m_pipe(b[1]) for b in brs], join), m_map(fl)])); desc.append(('tee',join,[b[2] for b in brs]))
    return impl,mod,desc

def main(seed,N):
    rng=random.Random(seed); st=dict(ok=0,bad=0,batch1=0)
    for case in range(N):
        impl,mod,desc=gen(rng,2,rng.randint(1,3))
        items=[rng.randint(0,12) for _ in range(rng.randint(0,14))]
        n=len(items)
        src=Subject(); out=[]; err=[]; cur=[None]
        old=sys.stdout; sys.stdout=io.StringIO()
        try:
            src.pipe(rs.state.with_memory_store([f() for f in impl])).subscribe(on_next=lambda v: out.append((cur[0],copy.deepcopy(v))), on_error=err.append)
            for j,x in enumerate(items):
                cur[0]=j; src.on_next(x)
            cur[0]=n; src.on_completed()
        finally: sys.stdout=old
        exp,_=m_pipe(mod)([(j,x) for j,x in enumerate(items)], n)
        # compare per-pos multisets
        def bag(evs):
            d={}
            for p,v in evs: d.setdefault(p,[]).append(repr(v))
            return {p:sorted(v) for p,v in d.items()}
        if err or bag(out)!=bag(exp):
            st['bad']+=1
            if st['bad']<=12: print("DIFF",desc,items,'\n   got',out,'\n   exp',exp,err)
        else: st['ok']+=1
    print(st)
main(int(sys.argv[1]),int(sys.argv[2]))

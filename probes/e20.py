import random, rxsci as rs
from rxsci.state.memory_store import MemoryStore
NOTSET=rs.state.markers.STATE_NOTSET
rng=random.Random(1); bad=0; ops=0
def val(dt,rng):
    if dt is int: return rng.randint(-2**62,2**62)
    if dt=='uint': return rng.randint(0,2**63)
    if dt is float: return rng.uniform(-1e9,1e9)
    if dt is bool: return rng.random()<.5
    return rng.choice([None,0,'',[1],{'a':1},(1,2),3.5])
for trial in range(3000):
    dt=rng.choice([int,'uint',float,bool,'obj','mapper'])
    default=None
    if dt!='mapper' and rng.random()<.5:
        default={int:-1,'uint':0,float:0.5,bool:False,'obj':'dflt'}[dt]
    st=MemoryStore(name='x',data_type=dt,default_value=default)
    model={}   # idx -> ('notset',) / ('set',v) ; for mapper: dict
    handed=set()
    idxs=rng.choice([list(range(5)), [rng.randint(0,3000) for _ in range(6)], list(range(40,30,-1))])
    for step in range(rng.randint(20,150)):
        i=rng.choice(idxs); key=(i,(0,))
        live=i in model
        op=rng.choice(['add','add','set','get','del','iter','check_all']+(['addmap','getmap','itermap'] if dt=='mapper' else []))
        ops+=1
        try:
            if op=='add':
                st.add_key(key)
                if dt=='mapper': model[i]={}
                else: model[i]=('set',default) if default is not None else ('notset',)
            elif op=='set' and live and dt!='mapper':
                v=val(dt,rng); st.set(key,v); model[i]=('set',v)
            elif op=='get' and live and dt!='mapper':
                g=st.get(key); m=model[i]
                if m==('notset',): assert g is NOTSET, (g,m)
                else:
                    assert g==m[1] and (dt=='obj' or type(g) is (int if dt=='uint' else dt)), (g,m)
            elif op=='del' and live:
                st.del_key(key); del model[i]
            elif op=='iter' and dt!='mapper':
                got=[(k[0],v,s) for k,v,s in st.iterate()]
                exp=sorted((j,(m[1] if m[0]=='set' else None),m[0]=='set') for j,m in model.items())
                assert [g[0] for g in got]==[e[0] for e in exp], (got,exp)
                for g,e in zip(got,exp):
                    assert g[2]==e[2]
                    if e[2]: assert g[1]==e[1]
            elif op=='check_all' and dt!='mapper':
                for j,m in model.items():
                    g=st.get((j,))
                    if m==('notset',): assert g is NOTSET
                    else: assert g==m[1]
            elif op=='addmap' and live:
                mk=rng.choice([1,2.0,'a',(1,2),1000+step%3])
                if st.get_map(key,mk) is NOTSET:
                    assert mk not in model[i]
                    ix=st.add_map(key,mk); assert ix not in handed, ix; handed.add(ix); model[i][mk]=ix
                else: assert st.get_map(key,mk)==model[i][mk]
            elif op=='getmap' and live:
                mk=rng.choice([1,2.0,'a',(1,2),7])
                g=st.get_map(key,mk)
                assert (g is NOTSET and mk not in model[i]) or g==model[i][mk]
            elif op=='itermap' and live:
                assert list(st.iterate_map(key))==list(model[i].keys())
        except AssertionError as e:
            bad+=1; print("VIOL",dt,default,op,i,e); break
print('ops',ops,'bad',bad)

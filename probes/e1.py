import rx, rxsci as rs
import rx.operators as ops

def run(src, *pipeline):
    out=[]; err=[]
    rx.from_(src).pipe(rs.state.with_memory_store(list(pipeline))).subscribe(on_next=out.append, on_error=err.append)
    return out, err

print("roll(3,1) on 4 items:", run([0,1,2,3], rs.data.roll(3,1,[rs.data.to_list()])))
print("roll(5,2) on 7 items:", run(list(range(7)), rs.data.roll(5,2,[rs.data.to_list()])))
print("roll(2,5) on 12 items:", run(list(range(12)), rs.data.roll(2,5,[rs.data.to_list()])))
print("batch(3) on 6:", run(list(range(6)), rs.data.batch(3)))
print("batch(3) on 0:", run([], rs.data.batch(3)))
print("batch(1) on 4:", run(list(range(4)), rs.data.batch(1)))
print("batch(3) plain 6:", end=' '); o=[]; rx.from_(range(6)).pipe(rs.data.batch(3)).subscribe(o.append); print(o)
print("duc leading None:", run([None,None,1,1,None], rs.ops.distinct_until_changed()))
o=[]; rx.from_([None,None,1,1,None]).pipe(ops.distinct_until_changed()).subscribe(o.append); print("rx duc", o)
print("formal var stream:", run([1.0,2.0,4.0,7.0], rs.math.formal.variance()))
print("formal var reduce:", run([1.0,2.0,4.0,7.0], rs.math.formal.variance(reduce=True)))
print("var stream:", run([1.0,2.0,4.0,7.0], rs.math.variance()))
# tee_map leak in roll
print("tee combine_latest under roll(2,2):", run([1,2,3,4], rs.data.roll(2,2,[rs.ops.tee_map(rx.pipe(rs.ops.filter(lambda i: i<3)), rx.pipe(rs.ops.map(lambda i: i*10)), join='combine_latest')])))
print("tee zip under roll(2,2):", run([1,2,4,3], rs.data.roll(2,2,[rs.ops.tee_map(rx.pipe(rs.ops.filter(lambda i: i<3)), rx.pipe(rs.ops.filter(lambda i: i>=2)), join='zip')])))
print("filter truthy:", run([1,2,3,4], rs.ops.filter(lambda i: i%2)))
from rxsci.container.csv import parse_decimal
print(parse_decimal('-1.5'), parse_decimal('-0.5'), parse_decimal('2.675'), 2.675)
import random
random.seed(1)
bad=0
for _ in range(100000):
    x = random.uniform(0,1000)
    if parse_decimal(str(x)) != x: bad+=1
print("parse_decimal mismatch positive floats:", bad, "/100000")

import rx, rxsci as rs, random, copy, sys, io, traceback
from e4 import Snap, norm

def tapkv(rec):
    def _tap(source):
        def on_subscribe(observer, scheduler):
            def on_next(i):
                t=type(i)
                if t is rs.OnNextMux: rec.append(('N', i.key, copy.deepcopy(i.item)))
                elif t is rs.OnCreateMux: rec.append(('C', i.key))
                elif t is rs.OnCompletedMux: rec.append(('D', i.key))
                elif t is rs.OnErrorMux: rec.append(('E', i.key, repr(i.error)))
                observer.on_next(i)
            return source.subscribe(on_next=on_next, on_error=observer.on_error, on_completed=observer.on_completed, scheduler=scheduler)
        return rs.MuxObservable(on_subscribe)
    return _tap

TEE=int(sys.argv[3]) if len(sys.argv)>3 else 1
def gen_inner(rng, depth):
    k=rng.randint(1,3)
    c=[
      (f'map(+{k})', lambda: rs.ops.map(lambda i: i+k)),
      (f'filter(%{k+1}!=0)', lambda: rs.ops.filter(lambda i: i%(k+1)!=0)),
      ('scan(sum)', lambda: rs.ops.scan(lambda a,i: a+i, 0)),
      ('sum(r)->int', lambda: rx.pipe(rs.math.sum(reduce=True), rs.ops.map(int))),
      ('count', lambda: rs.ops.count()),
      ('first', lambda: rs.ops.first()),
      ('last', lambda: rs.ops.last()),
      (f'take({k})', lambda: rs.ops.take(k)),
      ('distinct', lambda: rs.ops.distinct()),
      ('duc', lambda: rs.ops.distinct_until_changed()),
      (f'lag({k})->sum', lambda: rx.pipe(rs.data.lag(k), rs.ops.map(lambda t: t[0]*100+t[1]))),
      (f'pad_start({k})', lambda: rs.data.pad_start(k)),
      (f'pad_start({k},9)', lambda: rs.data.pad_start(k,9)),
      (f'pad_end({k})', lambda: rs.data.pad_end(k)),
      ('start_with', lambda: rs.ops.start_with([50,51])),
      (f'batch({k+1})->len', lambda: rx.pipe(rs.data.batch(k+1), rs.ops.map(len))),
      ('assert_1', lambda: rs.ops.assert_1(lambda a,b: True)),
      ('max', lambda: rs.math.max()),
    ]
    if depth>0:
        c += [('NEST', None)]*4 + ([('TEE',None)]*3 if TEE else [])
    return rng.choice(c)

def gen_pipe(rng, length, depth):
    ds=[]; bs=[]
    for _ in range(length):
        d,b = gen_inner(rng, depth)
        if d=='NEST':
            d,b = gen_ctx(rng, depth-1)
        elif d=='TEE':
            nb=rng.randint(2,3); join=rng.choice(['zip','combine_latest','merge'])
            brs=[gen_pipe(rng, rng.randint(1,2), depth-1) for _ in range(nb)]
            d=('tee',join,[x[0] for x in brs])
            def b(brs=brs,join=join):
                return rx.pipe(rs.ops.tee_map(*[rx.pipe(*[f() for f in x[1]]) for x in brs], join=join), rs.ops.map(lambda t: sum((x or 0) for x in t) if isinstance(t,tuple) else t))
        ds.append(d); bs.append(b)
    return ds,bs

def gen_ctx(rng, depth, head=None, tail=None):
    inner = gen_pipe(rng, rng.randint(1,3), depth)
    def mk():
        p=[f() for f in inner[1]]
        if head is not None: p=[tapkv(head)]+p+[tapkv(tail)]
        return p
    kind=rng.choice(['roll','roll','split','tsplit','group'])
    if kind=='roll':
        w=rng.randint(1,4); s=rng.randint(1,4)
        return (f'roll({w},{s})', inner[0]), (lambda: rs.data.roll(w,s,mk())), inner
    if kind=='split':
        m=rng.randint(2,3)
        return (f'split(//{m})', inner[0]), (lambda: rs.data.split(lambda i: (i//m)%2, mk())), inner
    if kind=='tsplit':
        at=rng.randint(2,5)
        return (f'tsplit({at})', inner[0]), (lambda: rs.data.time_split(time_mapper=lambda i:i, active_timeout=at, inactive_timeout=None, closing_mapper=lambda i: i%7==0, pipeline=mk())), inner
    m=rng.randint(2,3)
    return (f'group(%{m})', inner[0]), (lambda: rs.ops.group_by(lambda i:i%m, mk())), inner

def gen_ctx2(rng, depth):
    r=gen_ctx(rng,depth); return r[0], r[1]
_g=gen_ctx
def gen_ctx_wrap(rng, depth): 
    r=_g(rng,depth); return r[0], r[1]
# patch for NEST use (returns 2-tuple)
import types
def gen_ctx(rng, depth, head=None, tail=None, _orig=gen_ctx):
    r=_orig(rng, depth, head, tail)
    return r if head is not None else (r[0], r[1])

def lifetimes(rec):
    """-> dict key -> list of lifetimes (list of items)"""
    live={}; res={}
    order=[]
    for e in rec:
        if e[0]=='C':
            live[e[1]]=[]; 
        elif e[0]=='N':
            live[e[1]].append(e[2])
        elif e[0]=='D':
            res.setdefault(e[1],[]).append(live.pop(e[1]))
    return res

def main(seed,N):
    rng=random.Random(seed); st=dict(ok=0,bad=0,err=0,lifetimes=0)
    for case in range(N):
        head=[];tail=[]
        desc,build,inner = gen_ctx(rng, 2, head, tail)
        # outer context to add more key interleaving
        outer = rng.choice([None,'group'])
        items=sorted(rng.randint(0,30) for _ in range(rng.randint(0,16))) if 'tsplit' in repr(desc) else [rng.randint(0,12) for _ in range(rng.randint(0,16))]
        s=Snap()
        sink=io.StringIO(); old=sys.stdout; sys.stdout=sink
        try:
            try:
                p=build()
                if outer=='group': p=rs.ops.group_by(lambda i:i%2, [p])
                rx.from_(items).pipe(rs.state.with_memory_store([p])).subscribe(s)
            except Exception as e:
                s.err=('raised',repr(e))
        finally: sys.stdout=old
        if s.err is not None:
            st['err']+=1; print("ERR",desc,items,s.err); continue
        hl=lifetimes(head); tl=lifetimes(tail)
        bad=False
        for k,lts in hl.items():
            outs=tl.get(k,[])
            if len(outs)!=len(lts): print("LIFECOUNT",desc,k,lts,outs); bad=True; continue
            for lt,o in zip(lts,outs):
                st['lifetimes']+=1
                r=Snap()
                sys.stdout=sink
                try: rx.from_(lt).pipe(rs.state.with_memory_store([f() for f in inner[1]])).subscribe(r)
                finally: sys.stdout=old
                if r.err is not None or norm(r.out)!=norm(o):
                    bad=True; print("LEAK",desc,'outer',outer,'items',items,'key',k,'lifetime',lt,'got',o,'alone',r.out,r.err); break
            if bad: break
        st['bad' if bad else 'ok']+=1
    print(st)
main(int(sys.argv[1]), int(sys.argv[2]))

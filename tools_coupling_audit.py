"""Audit of the case generators: pairs of case-field values that are each frequent but NEVER occur together - the signature
of two selections derived from the same counter with commensurable periods (`k % 4` and `names[k % 8]`), which silently
removes a combination from every run.  Usage: python tools_coupling_audit.py [C01 ...]"""
import collections
import importlib
import itertools
import random
import sys

sys.path.insert(0, '/verif')


def flat(case, prefix='', depth=0):
    out = {}
    for k, v in case.items():
        key = prefix + k
        if isinstance(v, dict) and depth < 2:
            out.update(flat(v, key + '.', depth + 1))
        elif isinstance(v, (str, int, float, bool)) or v is None:
            out[key] = v if not isinstance(v, (int, float)) or isinstance(v, bool) else ('n', min(v, 3) if isinstance(v, int) else 'f')
        elif isinstance(v, list):
            out[key + '#len'] = min(len(v), 3)
            if v and isinstance(v[0], (str,)):
                out[key + '[0]'] = v[0]
            if v and isinstance(v[0], list) and v[0] and isinstance(v[0][0], str):
                out[key + '[0][0]'] = v[0][0]
    if depth == 0:
        pre = case.get('prelude')
        for k in [k for k in out if k.startswith('prelude')]:
            del out[k]
        out['prelude'] = 'absent' if not pre else 'feed' if pre[0][0] == 'feed' else 'present'
    return out


def determines(rows, f1, f2):
    m = {}
    bad = 0
    for r in rows:
        if f1 in r and f2 in r:
            a, b = repr(r[f1]), repr(r[f2])
            if m.setdefault(a, b) != b:
                bad += 1
    return bad <= len(rows) * 0.02


def audit(cid, limit=12000):
    chk = importlib.import_module('rxverif.checks.' + cid.lower()).CHECK
    rows = []
    for case in itertools.islice(chk.generate(random.Random(0), 'quick', 0, 1), limit):
        rows.append(flat(case))
    n = len(rows)
    vals = collections.defaultdict(collections.Counter)
    for r in rows:
        for k, v in r.items():
            vals[k][repr(v)] += 1
    fields = [k for k, c in vals.items() if 2 <= len(c) <= 14]
    found = []
    for f1, f2 in itertools.combinations(fields, 2):
        if f1.split('#')[0].split('[')[0] == f2.split('#')[0].split('[')[0] or determines(rows, f1, f2) or determines(rows, f2, f1):
            continue
        joint = collections.Counter()
        for r in rows:
            if f1 in r and f2 in r:
                joint[(repr(r[f1]), repr(r[f2]))] += 1
        for v1, c1 in vals[f1].items():
            for v2, c2 in vals[f2].items():
                exp = c1 * c2 / n
                if exp >= 25 and joint[(v1, v2)] == 0:
                    found.append((round(exp), f1, v1, f2, v2))
    found.sort(reverse=True)
    print('==', cid, n, 'cases;', len(found), 'frequent-but-never-together pairs')
    for e in found[:25]:
        print('   expected ~%d: %s=%s  with  %s=%s' % e)


if __name__ == '__main__':
    for cid in (sys.argv[1:] or ['C%02d' % i for i in range(1, 21)]):
        try:
            audit(cid)
        except Exception as e:      # noqa: BLE001
            print('==', cid, 'audit failed:', repr(e))

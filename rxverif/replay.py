"""python -m rxverif.replay <replay file> : re-executes a recorded violating case."""
import json
import os
import sys


def main():
    if os.environ.get('PYTHONHASHSEED') != '0':
        os.execve(sys.executable, [sys.executable, '-m', 'rxverif.replay'] + sys.argv[1:],
                  dict(os.environ, PYTHONHASHSEED='0'))
    from . import common
    from .run import load_check
    with open(sys.argv[1]) as f:
        rec = json.load(f)
    common.bootstrap()
    common.mute_stdout()
    check = load_check(rec['property'])
    out = check.evaluate(rec['case'])
    common.say(json.dumps({'property': rec['property'], 'case': rec['case'], 'failures': out.failures,
                           'discarded': out.discarded}, indent=1, default=repr))
    return 1 if out.failures else 0


if __name__ == '__main__':
    sys.exit(main())

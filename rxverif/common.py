"""Shared plumbing: locating the code under test, observation helpers, outcome and
evidence bookkeeping.  No check logic lives here."""
import copy
import random
import hashlib
import io
import json
import math
import os
import sys
import time
from array import array
from collections import Counter

VERIF = os.path.dirname(os.path.dirname(os.path.abspath(__file__)))
REPO = os.path.abspath(os.environ.get('RXSCI_REPO', '/repo'))
WORK = os.path.join(VERIF, '.work')          # scratch, git-ignored, never under /tmp
EVIDENCE_DIR = os.environ.get('VERIF_EVIDENCE_DIR') or os.path.join(VERIF, 'evidence')   # overridden only by selftest
REPLAY_DIR = os.environ.get('VERIF_REPLAY_DIR') or os.path.join(VERIF, 'replays')
FINDINGS_FILE = os.path.join(VERIF, 'known_findings.json')


class Inconclusive(Exception):
    """The run could not decide (watchdog, monitor never reached, wrong tree imported)."""


_rs = None


def bootstrap():
    """Import rxsci from the working tree named by $RXSCI_REPO (default /repo).

    Nothing needs building: importing the package from the tree *is* the rebuild.  We
    refuse to run when python resolved rxsci from anywhere else."""
    global _rs
    if _rs is not None:
        return _rs
    if REPO not in sys.path:
        sys.path.insert(0, REPO)
    import rxsci
    where = os.path.abspath(rxsci.__file__)
    if not where.startswith(REPO + os.sep):
        raise Inconclusive('rxsci imported from %s, not from %s' % (where, REPO))
    _rs = rxsci
    return rxsci


# ---------------------------------------------------------------------------
# stdout hygiene: rxsci prints ("error", "to_deque now flushing", progress lines).
# Workers swap sys.stdout for a sink and talk to the real stream through `say`.

class _Sink(io.TextIOBase):
    def __init__(self):
        self.n = 0

    def write(self, s):
        self.n += len(s)
        return len(s)


REAL_STDOUT = sys.stdout
SINK = _Sink()


def mute_stdout():
    global REAL_STDOUT
    if sys.stdout is not SINK:
        REAL_STDOUT = sys.stdout
        sys.stdout = SINK


def say(*a):
    print(*a, file=REAL_STDOUT, flush=True)


# ---------------------------------------------------------------------------
# value normalisation (comparison is type aware and NaN aware)

def norm(x):
    """Canonical, hashable, JSON-friendly form used for equality between two runs.

    Keeps the distinctions the properties care about (list vs tuple vs array, int vs
    float vs bool, None) and makes NaN equal to itself."""
    if x is None or isinstance(x, (str, bytes)):
        return x
    if type(x).__module__ == 'numpy':
        return ('np', type(x).__name__, repr(x))          # numpy.float64 is a float subclass: keep it distinct
    if isinstance(x, bool):
        return ('b', x)
    if isinstance(x, int):
        return x
    if isinstance(x, float):
        if math.isnan(x):
            return ('f', 'nan')
        return ('f', repr(x))
    if isinstance(x, array):
        return ('arr', x.typecode, tuple(norm(y) for y in x))
    if isinstance(x, tuple):
        return ('t',) + tuple(norm(y) for y in x)
    if isinstance(x, list):
        return ('l',) + tuple(norm(y) for y in x)
    if isinstance(x, dict):
        return ('d',) + tuple(sorted((repr(k), norm(v)) for k, v in x.items()))
    if isinstance(x, (set, frozenset)):
        return ('s',) + tuple(sorted(repr(norm(y)) for y in x))
    if isinstance(x, BaseException):
        try:
            text = str(x)
        except Exception:           # noqa: BLE001 - an exception class whose __str__ fails (progs._MuteBoom)
            text = repr(x.args)
        return ('exc', type(x).__name__, text)
    return ('obj', type(x).__name__, repr(x))


def jsonable(x, depth=0):
    """Best-effort JSON rendering of arbitrary observed values (for replay/evidence)."""
    if depth > 8:
        return repr(x)
    if x is None or isinstance(x, (bool, int, str)):
        return x
    if isinstance(x, float):
        return x if math.isfinite(x) else repr(x)
    if isinstance(x, bytes):
        return {'bytes': x.hex()} if len(x) <= 256 else {'bytes_len': len(x), 'head': x[:64].hex()}
    if isinstance(x, array):
        return {'array': x.typecode, 'v': [jsonable(y, depth + 1) for y in x]}
    if isinstance(x, tuple):
        return {'tuple': [jsonable(y, depth + 1) for y in x]}
    if isinstance(x, (list, set, frozenset)):
        return [jsonable(y, depth + 1) for y in x]
    if isinstance(x, dict):
        return {str(k): jsonable(v, depth + 1) for k, v in x.items()}
    return repr(x)


def case_hash(case):
    s = json.dumps(case, sort_keys=True, default=repr, separators=(',', ':'))
    return int.from_bytes(hashlib.blake2b(s.encode(), digest_size=8).digest(), 'big')


# ---------------------------------------------------------------------------
# subscribers

class Snap:
    """Final subscriber: deep-copies every item *at emission time* (several rxsci
    operators emit the accumulator object they go on mutating)."""

    def __init__(self, cursor=None):
        self.out = []
        self.err = None
        self.done = False
        self.pos = []            # cursor value at emission (C11)
        self.cursor = cursor
        self.after_end = 0       # events after termination

    def on_next(self, i):
        if self.done or self.err is not None:
            self.after_end += 1
        self.out.append(copy.deepcopy(i))
        if self.cursor is not None:
            self.pos.append(self.cursor[0])

    def on_error(self, e):
        if self.done or self.err is not None:
            self.after_end += 1
            return
        self.err = e

    def on_completed(self):
        if self.done or self.err is not None:
            self.after_end += 1
            return
        self.done = True


def subscribe(obs, snap):
    """Subscribe, turning an exception that escapes subscribe() into snap.err."""
    try:
        obs.subscribe(on_next=snap.on_next, on_error=snap.on_error, on_completed=snap.on_completed)
    except Exception as e:          # noqa: BLE001 - anything escaping is an observation
        if snap.err is None:
            snap.err = e
            snap.raised = True
    return snap


PRELUDE_RULE = ('. Every 4th case has a HISTORY: before the judged subscription the same observable lives through 1-3 aborted ones '
                '(disposed after k items / source error after k items / a consumer raising at item j / a take(j) peek) on a pushed source; '
                'pipelines with a tee_map only get the kinds without a terminal event')
PRELUDE_TAGS = ['after-aborted-subscriptions', 'prelude:dispose', 'prelude:source_error', 'prelude:consumer_raise', 'prelude:peek']
# 'overlap' (a consumer swap: the new subscription is made before the old one is disposed, no item in between) is only used where
# the judged operator is followed by nothing stateful (C04-C07): rxsci's context operators echo their outer events to every live
# subscription of the operator object (their outer Subject belongs to the operator), so a second live chain sees each create twice


def with_prelude(cases, rng, every=4, size=None, max_size=250, overlap=False):
    """Gives every `every`-th case a HISTORY (case['prelude']): 1-3 aborted subscriptions of the very observable
    that then serves the judged subscription - disposed after k items, killed by a source error after k items,
    a consumer that raises at its j-th item, a take(j) peek.  See progs.play_prelude."""
    r = random.Random(rng.randrange(1 << 30))
    for n, case in enumerate(cases):
        if r.random() * every < 1.0 and 'prelude' not in case:     # (drawn, not `n % every`: generators cycle through their contexts with small periods)
            sz = size(case) if size else len(case.get('items', ()))
            if sz <= max_size:
                kinds = ['dispose', 'source_error', 'consumer_raise', 'peek'] + (['overlap'] if overlap else [])
                case = dict(case, prelude=[[r.choice(kinds), r.randint(0, max(1, sz))]
                                           for _ in range(r.randint(1, 3))])
                if r.random() < 0.34 and isinstance(case.get('items'), list) and len(case['items']) >= 2:
                    # the history saw MORE than the judged subscription does: the aborted runs are fed the whole stream, the judged
                    # one only a prefix of it - or nothing at all (a live source that just completes, a drained one-shot source):
                    # keys that were busy in the history are EMPTY in the judged run
                    whole = case['items']
                    m = r.choice([0, 0, len(whole) // 4])       # (drawn, not derived from n: the case order cycles through contexts with small periods)
                    case = dict(case, items=whole[:m], prelude=[['feed', whole]] + [p for p in case['prelude'] if p[0] != 'overlap'])
        yield case


def with_reuse(cases, every=6):
    """every `every`-th case: the judged operator OBJECT first serves a throw-away pipeline at another nesting depth
    (windows.observe(reuse=True))"""
    r = random.Random(every * 7919 + 11)
    for n, case in enumerate(cases):
        if r.random() * every < 1.0 and len(case.get('items', ())) <= 400:      # (drawn, not `n % every`: see with_prelude)
            case = dict(case, reuse=True)
        yield case


def prelude_tags(case, out):
    if case.get('prelude'):
        out.tags.append('after-aborted-subscriptions')
        out.tags += ['prelude:' + p[0] for p in case['prelude'] if p[0] != 'feed']
        if any(p[0] == 'feed' for p in case['prelude']) and len(case['prelude']) > 1:
            out.tags.append('history-fed-more-than-the-judged-stream')


def shrink_prelude(case):
    if case.get('prelude'):
        c = dict(case)
        del c['prelude']
        yield c
        if len(case['prelude']) > 1:
            for k in range(len(case['prelude'])):
                yield dict(case, prelude=case['prelude'][:k] + case['prelude'][k + 1:])


class DocumentedCallRejected(Exception):
    """a public function refused a call made with its documented parameter names and order (progs.call): an
    observation about the code under test, not a harness error"""


def subscribe2(obs, out, what, same=None, abuse=True):
    """Subscribe the SAME observable object twice (what ops.repeat / retry or a second observer do): a cold
    pipeline owes every subscription the same events.  Returns the first Snap; a difference is a failure."""
    a = subscribe(obs, Snap())
    if abuse:
        # between the two judged subscriptions the observable is peeked at and abandoned (take(1), subscribed from
        # inside a trampoline so that the disposal really reaches the source mid-stream) and serves a consumer that
        # raises on its first item: what these leave behind must not show in the next subscription
        import rx.operators as rxops
        from rx.scheduler import CurrentThreadScheduler

        def peek(_, __):
            try:
                obs.pipe(rxops.take(1)).subscribe(on_next=lambda i: None, on_error=lambda e: None)
            except Exception:           # noqa: BLE001 - not judged
                pass
        try:
            CurrentThreadScheduler.singleton().schedule(peek)
        except Exception:               # noqa: BLE001
            pass

        def boom(_i):
            raise RuntimeError('the consumer failed on its first item')
        try:
            obs.subscribe(on_next=boom, on_error=lambda e: None)
        except Exception:               # noqa: BLE001 - not judged
            pass
        out.observed['abandoned_subscriptions_before_the_second_one'] += 2
    b = subscribe(obs, Snap())
    out.observed['second_subscriptions_of_one_observable'] += 1
    eq = same or (lambda x, y: x == y and [type(i) for i in x] == [type(i) for i in y])
    if a.done != b.done or (a.err is None) != (b.err is None) or not eq(a.out, b.out):
        def head(sn):
            return {'done': sn.done, 'error': repr(sn.err), 'n': len(sn.out), 'head': [repr(x)[:60] for x in sn.out[:6]]}
        out.fail('second-subscription-of-the-same-observable-differs', what=what, first=head(a), second=head(b))
    return a


# ---------------------------------------------------------------------------
# outcome of evaluating one case

class Outcome:
    __slots__ = ('failures', 'nontrivial', 'tags', 'observed', 'discarded')

    def __init__(self):
        self.failures = []        # list of dict(kind=..., detail=..., mech=...)
        self.nontrivial = False
        self.tags = []            # histogram keys (operators, contexts, shapes ...)
        self.observed = Counter()  # what the monitors actually saw (events, lifetimes ...)
        self.discarded = None     # reason string when a precondition rules the case out

    def fail(self, kind, mech=None, **detail):
        self.failures.append({'kind': kind, 'mech': mech, 'detail': jsonable(detail)})
        return self


class Check:
    """Base class of a property check.  Subclasses set ID/LEVEL/RULE and implement
    generate() and evaluate(); optional shrink() and finish()."""
    ID = None
    LEVEL = 'exploration'
    RULE = ''
    ASSUMPTIONS = []
    ANCHORS = []                  # files of /repo whose line coverage is reported
    REQUIRED_TAGS = []            # tags that must be seen at least once, else inconclusive
    REQUIRED_OBSERVED = []        # observed counters that must be > 0, else inconclusive
    EXHAUSTIVE = {'quick': False, 'thorough': False}

    def generate(self, rng, tier, shard, nshards):
        raise NotImplementedError

    def evaluate(self, case):
        raise NotImplementedError

    def shrink(self, case):
        return ()

    def extra_evidence(self):
        return {}


def interleave(*gens):
    """Round-robin over generators so a wall-clock cut never starves one phase."""
    gens = [iter(g) for g in gens]
    while gens:
        alive = []
        for g in gens:
            try:
                yield next(g)
                alive.append(g)
            except StopIteration:
                pass
        gens = alive


def now():
    return time.monotonic()


# ---- file names (C18-C20) ------------------------------------------------------------------------------------------------
# A "file path" is any string the operating system accepts: relative to the working directory, with characters that mean
# something to URL / URI parsers (an ISO timestamp 'T09:30:00' makes 'trades-2024-10-03T09' look like a scheme), blanks,
# non-ASCII letters, a leading '~' or '-'.  Checks run with the scratch directory as working directory (in_dir).
FILE_NAME_CLASSES = [
    ('plain', None),
    ('relative-with-colons', 'trades-2024-10-03T09:30:00'),
    ('relative-with-colons', 'snapshot:1'),
    ('blanks-and-non-ascii', os.path.join('{abs}', 'données été 1')),
    ('url-characters', os.path.join('{abs}', 'a#b?c%20d&e=f+g')),
    ('relative-in-a-subdirectory', os.path.join('sub dir', 'part-0001')),
    ('relative-with-colons', 'C:drive-like'),
    ('leading-tilde-or-dash', '~home'),
    ('leading-tilde-or-dash', '-dash'),
    ('glob-characters', os.path.join('{abs}', 'prices[2024]')),
    ('glob-characters', 'part[a-c]'),
    ('glob-characters', os.path.join('{abs}', 'star*and?mark')),
    ('glob-characters', 'export[1]'),
    # a target on ANOTHER file system than the system's temporary directory (a mounted data volume; here /dev/shm when the machine has
    # one on a different device): a file written somewhere else first cannot be renamed into place.  Not a REQUIRED class - whether a
    # second file system exists depends on the machine; the evidence shows whether it was driven.
    ('another-file-system', os.path.join('{otherfs}', 'volume file')),
]
FILE_NAME_TAGS = ['file-name:' + c for c in ('relative-with-colons', 'blanks-and-non-ascii', 'url-characters', 'relative-in-a-subdirectory', 'leading-tilde-or-dash', 'glob-characters')]


def file_path(tmpdir, default_name, ext, selector, out=None):
    """-> a path for a scratch file: `default_name` in tmpdir, or - by selector - one of FILE_NAME_CLASSES (relative names are
    relative to tmpdir, which must be the working directory: see in_dir)"""
    cls, name = FILE_NAME_CLASSES[selector % len(FILE_NAME_CLASSES)]
    if name is None:
        return os.path.join(tmpdir, default_name)
    if out is not None:
        out.tags.append('file-name:' + cls)
    if '{otherfs}' in name:
        other = _other_file_system()
        if other is None:
            return os.path.join(tmpdir, default_name)
        name = name.replace('{otherfs}', other)
    path = name.replace('{abs}', tmpdir) + ext
    d = os.path.dirname(path)
    if d:
        os.makedirs(d if os.path.isabs(d) else os.path.join(tmpdir, d), exist_ok=True)
    return path


_OTHER_FS = []


def _other_file_system():
    """-> a scratch directory on a file system other than tempfile.gettempdir()'s, or None"""
    if not _OTHER_FS:
        import atexit
        import shutil
        import tempfile
        found = None
        try:
            here = os.stat(tempfile.gettempdir()).st_dev
            for cand in ('/dev/shm', '/run/shm', os.path.expanduser('~'), '/var/tmp'):
                if os.path.isdir(cand) and os.access(cand, os.W_OK) and os.stat(cand).st_dev != here:
                    found = tempfile.mkdtemp(prefix='rxverif-', dir=cand)
                    atexit.register(shutil.rmtree, found, True)
                    break
        except OSError:
            found = None
        _OTHER_FS.append(found)
    return _OTHER_FS[0]


class in_dir:
    """run a block with `path` as the working directory"""

    def __init__(self, path):
        self.path = path

    def __enter__(self):
        self.old = os.getcwd()
        os.chdir(self.path)

    def __exit__(self, *a):
        os.chdir(self.old)


# ---- str subclasses as text items (C15, C17, C18) ---------------------------------------------------------------------------
class LoudStr(str):
    """a str subclass: its TEXT is what str methods, join, slicing, encode and == see; str(), format() / f-strings and repr() of
    it say something else (like a member of a str-mixin Enum: ''.join([Level.INFO, '!']) is 'info!', f'{Level.INFO}' is 'Level.INFO')"""

    def __str__(self):
        return '<LoudStr.__str__>'

    def __format__(self, spec):
        return '<LoudStr.__format__>'

    def __repr__(self):
        return 'LoudStr(%s)' % str.__repr__(self)


def str_enum_members(strings):
    """the strings as members of a str-mixin Enum built for them (equal strings share a member)"""
    import enum
    names = {}
    for s in strings:
        names.setdefault(s, 'M%d' % len(names))
    if not names:
        return []
    E = enum.Enum('Level', [(n, s) for s, n in names.items()], type=str)
    return [E(s) for s in strings]

"""E8 - sensitivity self-test (not a MANIFEST check).

python -m rxverif.selftest [--only ID,ID] [--with-tests] [--tier quick] [--jobs 8]

Applies each mutant of /verif/mutants/mutants.json (textual replacement in one file) and
each /verif/seeded/<id>/patch.diff to a scratch copy of $RXSCI_REPO outside /repo and
/verif, runs the owning quick checks with RXSCI_REPO pointing at the copy, records
caught / missed and the time to detection, and deletes the copy at once.
"""
import argparse
import concurrent.futures
import json
import os
import shutil
import subprocess
import sys
import tempfile
import time

VERIF = os.path.dirname(os.path.dirname(os.path.abspath(__file__)))
REPO = os.path.abspath(os.environ.get('RXSCI_REPO', '/repo'))
PY = sys.executable


def load_mutants():
    ms = []
    p = os.path.join(VERIF, 'mutants', 'mutants.json')
    if os.path.exists(p):
        ms += json.load(open(p))['mutants']
    sd = os.path.join(VERIF, 'seeded')
    if os.path.isdir(sd):
        for d in sorted(os.listdir(sd)):
            meta = os.path.join(sd, d, 'meta.json')
            patch = os.path.join(sd, d, 'patch.diff')
            if os.path.exists(meta) and os.path.exists(patch):
                m = json.load(open(meta))
                ms.append({'id': 'seeded/' + d, 'properties': m.get('checks') or [m['property']], 'patch': patch,
                           'note': m.get('needs', ''), 'out_of_reach': m.get('out_of_reach'), 'tier': m.get('tier')})
    return ms


def make_copy(tag):
    base = os.environ.get('TMPDIR', '/tmp')
    d = tempfile.mkdtemp(prefix='rxm-%s-' % tag.replace('/', '_'), dir=base)
    subprocess.run(['rsync', '-a', '--exclude', '.git', '--exclude', '__pycache__', '--exclude', '*.egg-info',
                    REPO + '/', d + '/'], check=True)
    return d


def apply_mutant(m, d):
    if 'patch' in m:
        r = subprocess.run(['patch', '-p1', '-s', '-i', m['patch']], cwd=d, capture_output=True, text=True)
        if r.returncode != 0:
            raise RuntimeError('patch failed: ' + r.stdout + r.stderr)
        return
    for e in m['edits']:
        path = os.path.join(d, e['file'])
        s = open(path).read()
        if s.count(e['old']) != 1:
            raise RuntimeError('%s: pattern occurs %d times in %s' % (m['id'], s.count(e['old']), e['file']))
        open(path, 'w').write(s.replace(e['old'], e['new']))


def run_one(m, tier, with_tests):
    res = {'id': m['id'], 'properties': m['properties'], 'note': m.get('note', ''), 'checks': {}, 'out_of_reach': m.get('out_of_reach')}
    d = make_copy(m['id'])
    try:
        try:
            apply_mutant(m, d)
        except Exception as e:
            res['error'] = str(e)
            return res
        if with_tests:
            r = subprocess.run([PY, '-m', 'pytest', '-q', '-x', '-p', 'no:cacheprovider', '--timeout=900'], cwd=d,
                               capture_output=True, text=True, env=dict(os.environ, PYTHONPATH=d))
            res['suite_passes'] = (r.returncode == 0)
            res['suite_tail'] = r.stdout.strip().splitlines()[-1:] if r.stdout else []
        ev = tempfile.mkdtemp(prefix='ev-', dir=d)
        for pid in m['properties']:
            t0 = time.monotonic()
            env = dict(os.environ, RXSCI_REPO=d, VERIF_NO_COVERAGE='1', VERIF_EVIDENCE_DIR=ev, VERIF_REPLAY_DIR=ev,
                       PYTHONHASHSEED='0')
            r = subprocess.run([PY, '-m', 'rxverif.run', pid, '--tier', m.get('tier') or tier], cwd=VERIF, capture_output=True,
                               text=True, env=env, timeout=3600)
            lines = [ln for ln in r.stdout.splitlines() if ln.startswith(('VIOLATION', 'INCONCLUSIVE', '  kind='))]
            res['checks'][pid] = {'rc': r.returncode, 'caught': r.returncode == 1, 'wall_s': round(time.monotonic() - t0, 1),
                                  'lines': [ln[:300] for ln in lines[:3]],
                                  'stderr': r.stderr[-300:] if r.returncode not in (0, 1) else ''}
    finally:
        shutil.rmtree(d, ignore_errors=True)
    return res


def main():
    ap = argparse.ArgumentParser()
    ap.add_argument('--only', default=None)
    ap.add_argument('--with-tests', action='store_true')
    ap.add_argument('--tier', default='quick')
    ap.add_argument('--jobs', type=int, default=8)
    ap.add_argument('--merge', action='store_true', help='with --only: write the re-run entries into the stored result file')
    ap.add_argument('--out', default=os.path.join(VERIF, 'mutants', 'selftest_result.json'))
    a = ap.parse_args()
    ms = load_mutants()
    if a.only:
        want = a.only.split(',')
        ms = [m for m in ms if any(m['id'].startswith(w) or w in m['properties'] for w in want)]
    results = []
    with concurrent.futures.ThreadPoolExecutor(max_workers=a.jobs) as ex:
        for r in ex.map(lambda m: run_one(m, a.tier, a.with_tests), ms):
            results.append(r)
            st = ' '.join('%s:%s(%ss)' % (p, 'CAUGHT' if c['caught'] else 'missed rc=%s' % c['rc'], c['wall_s'])
                          for p, c in r['checks'].items())
            print('%-44s %s %s %s' % (r['id'], st, r.get('error', ''),
                                      '' if r.get('suite_passes', True) else '[suite FAILS with this mutant]'), flush=True)
    inreach = [r for r in results if not r.get('out_of_reach')]
    caught = sum(1 for r in inreach if any(c['caught'] for c in r['checks'].values()))
    print('caught %d of %d' % (caught, len(inreach)))
    oor = [r for r in results if r.get('out_of_reach')]
    if oor:
        # changes whose demonstration needs something the property does not speak about (recorded with the reason in
        # the seed's meta.json and in DESIGN.md section 10): run all the same, a check that fires on one is reported
        print('%d further changes are outside what the property states: %s' % (len(oor), ', '.join(
            '%s%s' % (r['id'], ' (fires all the same)' if any(c['caught'] for c in r['checks'].values()) else '') for r in oor)))
    if not a.only:
        json.dump({'tier': a.tier, 'results': results}, open(a.out, 'w'), indent=1)
    elif a.merge and os.path.exists(a.out):
        # re-run of a few entries: replace them in the stored result of the last complete run (new entries are appended)
        old = json.load(open(a.out))
        byid = {r['id']: r for r in results}
        merged = [byid.pop(r['id'], r) for r in old['results']] + list(byid.values())
        json.dump({'tier': old.get('tier', a.tier), 'results': merged}, open(a.out, 'w'), indent=1)
    return 0


if __name__ == '__main__':
    sys.exit(main())

"""E6 - chunking enumerator for byte / character streams."""
import itertools


def cut(stream, cuts):
    """Cut `stream` (bytes/str) at the sorted positions `cuts` (0 < c < len)."""
    out = []
    prev = 0
    for c in cuts:
        out.append(stream[prev:c])
        prev = c
    out.append(stream[prev:])
    return out


def all_cut_sets(n):
    """All 2^(n-1) subsets of interior cut positions of a stream of length n."""
    if n <= 1:
        yield ()
        return
    pos = list(range(1, n))
    for r in range(len(pos) + 1):
        for c in itertools.combinations(pos, r):
            yield c


def single_and_double_cuts(n):
    yield ()
    for a in range(1, n):
        yield (a,)
    for a in range(1, n):
        for b in range(a + 1, n):
            yield (a, b)


def random_cuts(rng, n, maxcuts=8):
    if n <= 1:
        return ()
    k = rng.randint(0, min(maxcuts, n - 1))
    return tuple(sorted(rng.sample(range(1, n), k)))


def with_empties(rng, chunks, empty, p=0.3):
    """Insert empty chunks at the start, in the middle and at the end."""
    out = []
    if rng.random() < p:
        out.append(empty)
    for c in chunks:
        out.append(c)
        if rng.random() < p / 2:
            out.append(empty)
    return out


def insert_empties_everywhere(chunks, empty):
    """Deterministic: empty chunk before, between every pair, and after."""
    out = [empty]
    for c in chunks:
        out.append(c)
        out.append(empty)
    return out


BYTES_LIKE = ('bytes', 'bytearray', 'memoryview')


def bytes_like(chunks, kind):
    """The same byte chunks as objects of another bytes-like type: 'bytearray' (what recv_into / readinto style producers
    deliver - mutable, so a consumer that keeps one and extends it in place corrupts its producer's data) or 'memoryview'
    (zero-copy slices of ONE buffer, the usual way to re-chunk without copying; a memoryview has no '+', no .find, no .decode)."""
    if kind == 'bytearray':
        return [bytearray(c) for c in chunks]
    if kind == 'memoryview':
        whole = memoryview(b''.join(bytes(c) for c in chunks))
        out, pos = [], 0
        for c in chunks:
            out.append(whole[pos:pos + len(c)])
            pos += len(c)
        return out
    if kind == 'numpy-uint8':
        # blocks of a file read with numpy.frombuffer / fromfile / memmap: an array has no truth value (`if chunk:` raises for more
        # than one byte and is False for a single zero byte) and `chunk + chunk` adds element-wise
        import numpy
        return [numpy.frombuffer(bytes(c), dtype=numpy.uint8) for c in chunks]
    return list(chunks)


def frozen(chunks):
    """an immutable copy of a list of bytes-like chunks, to compare with after the run: the library must not change its input"""
    return [bytes(c) for c in chunks]

"""E6 - chunking enumerator for byte / character streams."""
import itertools


def cut(stream, cuts):
    """Cut `stream` (bytes/str) at the sorted positions `cuts` (0 < c < len)."""
    out = []
    prev = 0
    for c in cuts:
        out.append(stream[prev:c])
        prev = c
    out.append(stream[prev:])
    return out


def all_cut_sets(n):
    """All 2^(n-1) subsets of interior cut positions of a stream of length n."""
    if n <= 1:
        yield ()
        return
    pos = list(range(1, n))
    for r in range(len(pos) + 1):
        for c in itertools.combinations(pos, r):
            yield c


def single_and_double_cuts(n):
    yield ()
    for a in range(1, n):
        yield (a,)
    for a in range(1, n):
        for b in range(a + 1, n):
            yield (a, b)


def random_cuts(rng, n, maxcuts=8):
    if n <= 1:
        return ()
    k = rng.randint(0, min(maxcuts, n - 1))
    return tuple(sorted(rng.sample(range(1, n), k)))


def with_empties(rng, chunks, empty, p=0.3):
    """Insert empty chunks at the start, in the middle and at the end."""
    out = []
    if rng.random() < p:
        out.append(empty)
    for c in chunks:
        out.append(c)
        if rng.random() < p / 2:
            out.append(empty)
    return out


def insert_empties_everywhere(chunks, empty):
    """Deterministic: empty chunk before, between every pair, and after."""
    out = [empty]
    for c in chunks:
        out.append(c)
        out.append(empty)
    return out

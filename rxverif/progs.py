"""E2 - pipelines as data.

A program is a JSON list of nodes ["op", arg, ...] over a closed vocabulary of *named* user
functions, so it can be serialised (replay), hashed (distinct counting) and built three ways:
as rxsci operators for a MuxObservable, as rxsci operators for a plain Observable (same calls,
the library dispatches), and as a term of the reference model (model.py).
"""
import collections as _collections
import copy
import enum as _enum
import functools
import math
import dataclasses
import zlib
from array import array

import rx
import rx.operators as _rxops

from .common import bootstrap, norm

rs = bootstrap()


# ---------------------------------------------------------------------------
# named user functions

from datetime import datetime as _datetime, timedelta as _timedelta, timezone as _timezone     # noqa: E402
# The process runs in a local time zone WITH daylight saving (a POSIX rule: no tz database needed), and the naive timestamps
# start the day before a change (2020-03-29 02:00 CET -> CEST): naive datetimes are what they say, not local time
import os as _os                                                    # noqa: E402
import time as _time                                                # noqa: E402
_os.environ['TZ'] = 'CET-1CEST,M3.5.0,M10.5.0/3'
_time.tzset()
_EPOCH = _datetime(2020, 3, 28, 12, 0, 0)
_EPOCH_UTC = _datetime(2020, 1, 1, tzinfo=_timezone.utc)


from collections import namedtuple as _namedtuple                       # noqa: E402
NT = _namedtuple('NT', ['a', 'b'])


import numpy as _np                                                   # noqa: E402


_THE_NAN = float('nan')


class Tag(str):
    """case-insensitive equality, inherited (case-sensitive) inequality"""

    def __eq__(self, other):
        return isinstance(other, str) and self.lower() == other.lower()

    def __hash__(self):
        return hash(self.lower())


class Approx:
    __slots__ = ('v',)

    def __init__(self, v):
        self.v = v

    def __eq__(self, other):
        return isinstance(other, Approx) and abs(self.v - other.v) <= 1

    def __ne__(self, other):
        return not self.__eq__(other)

    __hash__ = None

    def __repr__(self):
        return 'Approx(%r)' % (self.v,)


class _Plain:
    """an ordinary object: equality is identity"""
    __slots__ = ('tag',)

    def __init__(self, tag):
        self.tag = tag

    def __repr__(self):
        return '_Plain(%d)' % self.tag


_PLAIN_OBJECTS = [_Plain(j) for j in range(7)]


class Boom(Exception):
    """injected user-function failure (C13)"""

    def __init__(self, item):
        super().__init__('boom on %r' % (item,))
        self.item = item

    def __eq__(self, other):
        return isinstance(other, Boom) and other.item == self.item

    def __hash__(self):
        return hash(('Boom', repr(self.item)))


def digest(x):
    """any value -> small int, stable across runs (PYTHONHASHSEED independent)"""
    return zlib.crc32(repr(norm(x)).encode()) % 89


def _append_mut(a, i):
    a.append(i)
    return a


class _Sloppy:
    """a small value class whose comparisons only work among its own kind (a hand-written __eq__ that reads other.v without an
    isinstance check): comparing it with anything else raises AttributeError"""

    def __init__(self, v):
        self.v = v

    def __eq__(self, other):
        return self.v == other.v

    def __ne__(self, other):
        return self.v != other.v

    def __hash__(self):
        return hash(('sloppy', self.v))

    def __repr__(self):
        return '_Sloppy(%r)' % (self.v,)


class _PlainStrSub(str):
    pass


_PairNT = _collections.namedtuple('_PairNT', ['v', 'tag'])
_CLS_FORMS = [
    (lambda v: 'k%d' % v, lambda v: _PlainStrSub('k%d' % v)),
    (lambda v: (v, 'x'), lambda v: _PairNT(v, 'x')),
    (lambda v: v % 2 == 0, lambda v: _np.bool_(v % 2 == 0)),
]


def _term_mark_mut(a):
    a.append(-1)
    return a


def _dict_count(a, i):
    a[i % 3] = a.get(i % 3, 0) + 1
    return a


def _nested_mut(a, i):
    a[0].append(i)
    return (a[0], a[1] + 1)


def _boom_class(base):
    return type('Boom' + base.__name__, (Boom, base), {})


# the same injected failure as instances of the exception classes user code really raises (a missing attribute on a None
# payload, a missing key, a bad cast, a division by zero ...): which class it is must make no difference
BOOMS = [Boom] + [_boom_class(b) for b in (AttributeError, KeyError, TypeError, ValueError, IndexError, ZeroDivisionError, RuntimeError,
                                             AssertionError, OSError, LookupError, ArithmeticError, UnicodeError, NotImplementedError)]


class _FrozenBoom(Boom):
    """an immutable exception (what @dataclass(frozen=True) / attrs.frozen on an Exception subclass gives): attribute assignment
    and deletion are refused once it is built - the interpreter itself sets __traceback__ / __context__ without going through
    __setattr__, so raising and catching it works like for any other class"""

    def __init__(self, item):
        Exception.__init__(self, 'boom on %r' % (item,))
        object.__setattr__(self, 'item', item)

    def __setattr__(self, name, value):
        raise dataclasses.FrozenInstanceError('cannot assign to field %r' % name)

    def __delattr__(self, name):
        raise dataclasses.FrozenInstanceError('cannot delete field %r' % name)

    def __deepcopy__(self, memo):        # (the harness snapshots what consumers receive with deepcopy)
        return self


class _NoArgsBoom(Boom):
    """an exception whose .args do not rebuild it (type(e)(*e.args) fails): it can only be passed on as the object it is"""

    def __init__(self, item, *, strict=True):
        Exception.__init__(self)
        self.item = item

    def __deepcopy__(self, memo):        # (the harness snapshots what consumers receive with deepcopy)
        return self


class _MuteBoom(Boom):
    """an application exception whose __str__ returns an optional message attribute that is None: raising, catching and passing it
    on work; only str(e) / f'{e}' / logging it with %s fail (TypeError: __str__ returned non-string)"""

    def __str__(self):
        return None


BOOMS += [_FrozenBoom, _NoArgsBoom, _MuteBoom]


def boom_for(item_id, item):
    return BOOMS[item_id % len(BOOMS)](item)


class Phase(_enum.IntEnum):
    IDLE = 0
    ACTIVE = 1
    DONE = 2


def _ddict_mut(a, i):
    a[digest(i) % 3] += 1
    return a


def _ndict_mut(a, i):
    a['seen'].append(i)
    a['n'] += 1
    return a


def _nlist_mut(a, i):
    a[0].append(i)
    a[1] += 1
    return a


class Box:
    """a user object that is hashable (by identity) AND mutable: a seed like this still needs a copy per key"""

    def __init__(self):
        self.items = []

    def __repr__(self):
        return 'Box(%r)' % (self.items,)

    def __eq__(self, other):
        return isinstance(other, Box) and other.items == self.items

    __hash__ = object.__hash__


def _box_mut(a, i):
    a.items.append(i)
    return a


def _tbox_mut(a, i):
    a[0].items.append(i)
    return (a[0], a[1] + 1)


def _arr_append(a, i):
    a.append(i)
    return a


_FUNCS = {
    # int -> int
    'add': lambda k: (lambda i: i + k),
    'mul': lambda k: (lambda i: i * k),
    'mod': lambda k: (lambda i: i % k),
    'div': lambda k: (lambda i: i // k),
    'neg': lambda: (lambda i: -i),
    'sub': lambda k: (lambda i: i - k),
    'tonp': lambda: (lambda i: _np.int64(i)),
    'frompy': lambda: (lambda p: int(p)),
    'id': lambda: (lambda i: i),
    'dt': lambda: (lambda i: _EPOCH + _timedelta(seconds=i)),
    # no timestamp at all: time_split used for its closing_mapper only (no timeout configured)
    'tnone': lambda: (lambda i: None),
    # sub-second resolution: item i is i MILLISECONDS after a recent instant with a fractional second; the timeouts of the cfg are then
    # milliseconds too (200 ms, 150 ms, 1.2 s ... are not multiples of the grid of a float holding epoch seconds)
    'dtms': lambda: (lambda i: _datetime(2024, 10, 3, 12, 0, 0, 403000) + _timedelta(milliseconds=i)),
    # the same instants as timezone-AWARE datetimes whose UTC offset changes from item to item (local-time logs across a
    # daylight-saving change, records from several regions): they compare by instant, not by wall-clock fields
    'dtz': lambda: (lambda i: (_EPOCH_UTC + _timedelta(seconds=i)).astimezone(_timezone(_timedelta(hours=(i % 5) - 2, minutes=30 * (i % 2))))),
    # int -> other
    'pair': lambda: (lambda i: (i, i + 1)),
    'pairmod': lambda k: (lambda i: (i % k, i)),
    'rep': lambda k: (lambda i: [i] * (i % k)),
    'upto': lambda k: (lambda i: list(range(i % k))),
    'opt': lambda k: (lambda i: None if i % k == 0 else i),
    'half': lambda: (lambda i: i / 2),
    'nt': lambda k: (lambda i: NT(a=None if i % k == 0 else i, b=i)),
    'ntsum': lambda: (lambda n: (n.a or 0) + n.b),
    'tofloat': lambda: (lambda i: float(i)),
    # float -> int
    'trunc': lambda: (lambda x: int(x)),
    'scale10': lambda: (lambda x: int(x * 10)),
    # tuple / list / opt -> int
    't0': lambda: (lambda t: t[0]),
    't1': lambda: (lambda t: t[1]),
    'tsum': lambda: (lambda t: t[0] + t[1]),
    # lazy, one-shot iterables without len(): a generator, a zip object, a map object (only placed directly in front of flat_map, C01)
    'genup': lambda k: (lambda i: (x for x in range(i % k))),
    'zipit': lambda k: (lambda i: zip(range(i % k), range(10, 10 + i % k))),
    'mapit': lambda k: (lambda i: map(abs, range(-(i % k), 0))),
    'len': lambda: len,
    'lsum': lambda: (lambda l: sum(l)),
    'isnone': lambda: (lambda o: 0 if o is None else o),
    'digest': lambda: digest,
    # starmap (tuple of 2 -> int)
    'add2': lambda: (lambda a, b: a + b),
    'mul2': lambda: (lambda a, b: a * b - a),
    # predicates (bool)
    'gt': lambda k: (lambda i: i > k),
    'lt': lambda k: (lambda i: i < k),
    'even': lambda: (lambda i: i % 2 == 0),
    'odd': lambda: (lambda i: i % 2 == 1),
    'modeq': lambda k, r: (lambda i: i % k == r),
    'modne': lambda k, r: (lambda i: i % k != r),
    'true': lambda: (lambda i: True),
    'false': lambda: (lambda i: False),
    # a yes / no answer whose "no" is a falsy value that is not the object False (dict.get('final') -> None, `m and m == 'END'` -> '')
    'modeqnone': lambda k, r: (lambda i: True if i % k == r else None),
    'modeqstr': lambda k, r: (lambda i: ('' if i % k != r else 'END') and True),
    'dgt': lambda k: (lambda x: digest(x) > k),
    # predicates returning a truthy / falsy non-bool (separate input class)
    'modtruthy': lambda k: (lambda i: i % k),
    # accumulators
    'acc_add': lambda: (lambda a, i: a + i),
    'acc_addsq': lambda: (lambda a, i: a + i * i % 7),
    'acc_max': lambda: (lambda a, i: i if i > a else a),
    'acc_addf': lambda: (lambda a, i: a + i / 2),
    'acc_append_new': lambda: (lambda a, i: a + [i]),
    'acc_append_mut': lambda: _append_mut,
    'acc_dict_mut': lambda: _dict_count,
    'acc_pair': lambda: (lambda a, i: (a[0] + i, a[1] + 1)),
    'acc_arr_mut': lambda: _arr_append,
    'acc_nested_mut': lambda: _nested_mut,
    'acc_box_mut': lambda: _box_mut,
    'acc_tbox_mut': lambda: _tbox_mut,
    'acc_digest': lambda: (lambda a, i: (a * 7 + digest(i)) % 1009),
    # a per-key state machine on an IntEnum: the accumulator needs the MEMBER (its name), not just its integer value
    'acc_phase': lambda: (lambda a, i: Phase((Phase[a.name].value + digest(i)) % 3)),
    # a tally in a defaultdict given as a VALUE seed: a copy must keep its default_factory
    'acc_ddict_mut': lambda: _ddict_mut,
    # in-place folds on seeds that are containers WITH a copy() method holding another container (a shallow copy shares it)
    'acc_ndict_mut': lambda: _ndict_mut,
    'acc_nlist_mut': lambda: _nlist_mut,
    # a state that compares element-wise: `state == marker` is an array, `bool(array)` raises for more than one element
    'acc_npvec': lambda: (lambda a, i: a + _np.array([i, 1], dtype='int64')),
    # an append on a list produced by a factory that is not a plain function (functools.partial / callable object / lru_cache)
    # a stateful pass-through (emits every item as it is): placed BEHIND an operator under test, it only works if the events that
    # operator emits are complete mux events - key, item and the store of the section
    'acc_keep': lambda: (lambda a, i: i),
    'acc_append_any': lambda: (lambda a, i: a + [digest(i)]),
    # (first value seen, count): 'nothing seen yet' is recognised by the IDENTITY of the sentinel the factory put in the state
    'acc_sentinel': lambda: (lambda a, i: (digest(i), 1) if a[0] is _MISSING else (a[0], a[1] + 1)),
    # terminators (must return the seed's type)
    'term_neg': lambda: (lambda a: -a),
    'term_addk': lambda k: (lambda a: a + k),
    'term_sorted': lambda: (lambda a: sorted(a)),
    'term_mark': lambda: (lambda a: a + [-1]),
    # a terminator that finalises its accumulator IN PLACE and returns it (the idiom of the in-place accumulators)
    'term_mark_mut': lambda: _term_mark_mut,
    # two-argument predicates (assert_1)
    'true2': lambda: (lambda a, b: True),
    'le2': lambda: (lambda a, b: a <= b),
    # keys that are equal but not identical objects
    'kt': lambda k: (lambda i: (i % k,)),
    'ks': lambda k: (lambda i: 'k%d' % (i % k)),
    'kbig': lambda k: (lambda i: 10 ** 12 + (i % k)),
    'kf': lambda k: (lambda i: float(i % k)),
    'kmix': lambda k: (lambda i: float(i % k) if i % 2 else i % k),
    'kdig': lambda k: (lambda x: digest(x) % k),
    # keys whose equality is NOT transitive (tolerance-based __eq__): 0 ~ 1 ~ 2 but 0 !~ 2.  'changed' means: != the key of the
    # PREVIOUS item, which differs from '!= the key of the last item that was emitted'
    'kapprox': lambda: (lambda i: Approx(i)),
    # keys that are identity-hashed objects
    'kobj': lambda k: (lambda i: _PLAIN_OBJECTS[i % min(k, len(_PLAIN_OBJECTS))]),
    # EQUAL items with different keys: (g, 1) == (g, 1.0) == (g, True) - same hash too - keyed by the type of the second field
    'ktype': lambda: (lambda t: (t[0], type(t[1]).__name__)),
    # numpy scalars: their == / != / > return numpy.bool_, which is not the object True
    'knp': lambda k: (lambda i: _np.int64(i % k)),
    'modnp': lambda k: (lambda i: _np.int64(i % k)),
    'divnp': lambda k: (lambda i: _np.int64(i // k)),
    'divnpf': lambda k: (lambda i: _np.float64(i // k)),
    'npgt': lambda k: (lambda i: _np.int64(i) > k),
    # ints of mixed sign (negative keys / indices)
    'kcent': lambda k: (lambda i: (i % k) - k // 2),
    'divcent': lambda k: (lambda i: (i // k) - 2),
    'divbool': lambda k: (lambda i: (i // k) % 2 == 0),
    'divnone': lambda k: (lambda i: None if (i // k) % 2 else (i // k)),
    # a value that is != to ITSELF, and the same object every time (a module-level NaN standing for a missing label):
    # by != every such item is a run of its own; identity says nothing about equality
    # values that compare by IDENTITY (instances of a plain class without __eq__): a copy of one is != to it
    'divobj': lambda k: (lambda i: _PLAIN_OBJECTS[(i // k) % len(_PLAIN_OBJECTS)]),
    'divobjt': lambda k: (lambda i: (_PLAIN_OBJECTS[(i // k) % len(_PLAIN_OBJECTS)], 'x')),
    # a str subclass that overrides __eq__ only: Python keeps str's own __ne__, so `a != b` and `not (a == b)` disagree
    'divtag': lambda k: (lambda i: Tag('tag%d' % ((i // k) // 2) if (i // k) % 2 else 'TAG%d' % ((i // k) // 2))),
    # EQUAL values of DIFFERENT classes inside one run: a plain str next to a str subclass (a parsed field next to the application's
    # str-mixin Enum), a tuple next to a namedtuple, a bool next to a numpy.bool_ - `!=` says they are the same
    # values that can only be compared with their own kind (every value of the stream is of that kind)
    'divsloppy': lambda k: (lambda i: _Sloppy(i // k)),
    'ksloppy': lambda k: (lambda i: _Sloppy(i % k)),
    'kcls': lambda k: (lambda i: _CLS_FORMS[k % 3][i % 2](i % k)),
    'divcls': lambda k: (lambda i: _CLS_FORMS[k % 3][i % 2](i // k)),       # (one family per predicate: numpy scalars do not compare with tuples)
    'divnan': lambda k: (lambda i: _THE_NAN if (i // k) % 3 == 1 else (i // k)),
    # a composite criterion with a missing field: the SAME NaN object inside every tuple.  Python's tuple != looks at identity first,
    # so equal tuples holding that object are equal - the criterion changes only when the other field does
    'divnant': lambda k: (lambda i: (i // k, _THE_NAN)),
    # different keys whose hashes collide: hash(-1) == hash(-2); ints congruent mod 2**61-1 share a hash
    'kneg': lambda k: (lambda i: -1 - (i % k)),
    'kmers': lambda k: (lambda i: (i % k) * (2 ** 61 - 1)),
    'ktneg': lambda k: (lambda i: ('s', -1 - (i % k))),
    'divt': lambda k: (lambda i: (i // k,)),
    'divs': lambda k: (lambda i: str(i // k)),
    'divbig': lambda k: (lambda i: 10 ** 12 + i // k),
    'divhuge': lambda k: (lambda i: 2 ** 53 + i // k),         # consecutive ints that round to the same double
    'divf': lambda k: (lambda i: (i // k) * 1.5),
    'divpar': lambda k: (lambda i: (i // k) % 2),
    'digpar': lambda k: (lambda x: (digest(x) // k) % 2),
}

_SEEDS = {
    'none': lambda: None, 'zero': lambda: 0, 'zerof': lambda: 0.0, 'list': lambda: [], 'list_factory': lambda: list,
    'dict_factory': lambda: dict, 'pair00': lambda: (0, 0), 'neg1': lambda: -1,
    'arr_factory': lambda: (lambda: array('q')), 'one': lambda: 1,
    'box': lambda: Box(), 'tbox': lambda: (Box(), 0),      # hashable but mutable user objects
    'nested': lambda: ([], 0),          # an immutable container holding a mutable one: needs a DEEP copy per key
    'npvec': lambda: _np.zeros(2, dtype='int64'),
    'ndict': lambda: {'n': 0, 'seen': []}, 'nlist': lambda: [[], 0],
    'phase': lambda: Phase.IDLE, 'ddict': lambda: _collections.defaultdict(int),
    # seed FACTORIES that are callable without being functions or classes
    'list_partial': lambda: functools.partial(list, ()),
    'list_callable_object': lambda: _ListFactory(),
    'list_lru': lambda: _lru_list,
    'sentinel_factory': lambda: _sentinel_state,
}


class _ListFactory:
    def __call__(self):
        return []


class _Missing:
    """a module-level sentinel (`_MISSING = object()` with a stable repr): a copy of it is NOT it"""

    def __repr__(self):
        return '<MISSING>'

    # (equal to any other instance: the reference model snapshots what it emits with deepcopy, and a downstream
    # distinct_until_changed must see the copy of the sentinel as the same VALUE; the accumulator recognises the sentinel with `is`)
    def __eq__(self, other):
        return type(other) is _Missing

    def __ne__(self, other):
        return type(other) is not _Missing

    def __hash__(self):
        return 7


_MISSING = _Missing()


def _sentinel_state():
    # the documented contract of a seed FACTORY: its product is the initial state as it is.  A fresh state may hold references
    # whose identity matters - here the usual 'nothing seen yet' sentinel, tested with `is` by a pure accumulator
    return (_MISSING, 0)


def _fresh_list():
    return []


# (the cached list is handed to every key, which is harmless here: acc_append_any never mutates its accumulator)
_lru_list = functools.lru_cache(maxsize=None)(_fresh_list)


def fn(name, env=None):
    """'base:arg:arg' -> callable.  `env` may wrap / override (instrumentation)."""
    if env and name in env:
        return env[name]
    parts = name.split(':')
    if parts[0] == 'raise_on':
        # raise_on:<comma separated ints>:<inner function name>   (fault injection, C13)
        bad = set(int(x) for x in parts[1].split(',') if x != '')
        inner = fn(':'.join(parts[2:]), env)

        def f(*a):
            key = a[-1]
            k = key if isinstance(key, int) else digest(key)
            if k in bad:
                raise boom_for(k, key)
            return inner(*a)
        return f
    args = [int(x) for x in parts[1:]]
    f = _FUNCS[parts[0]](*args)
    if env and '*wrap' in env:
        f = env['*wrap'](name, f)
    return f


def seed(name, env=None):
    if env and ('seed:' + name) in env:
        return env['seed:' + name]
    return _SEEDS[name]()


# ---------------------------------------------------------------------------
# operator table
#
# accepts : input item types; 'i' int, 'f' float, 't' tuple(int,int), 'l' list[int],
#           'o' optional int, 'x' anything
# out     : output type (callable of (in_type, node) or constant)
# flags   : dual       - documented for Observable and MuxObservable (C01 vocabulary)
#           completion - emits (also) when the key completes
#           early      - take / first: complete early on a plain observable
#           stateful   - order sensitive: output depends on the order of its inputs
#           mux_only

class Op:
    def __init__(self, name, accepts, out, build, flags=()):
        self.name = name
        self.accepts = accepts
        self.out = out
        self.build = build
        self.flags = set(flags)


def _scan_build(node, env):
    _, accname, seedname, reduce, term = node
    return call(rs.ops.scan, [('accumulator', fn(accname, env)), ('seed', seed(seedname, env)), ('reduce', reduce),
                              ('terminator', fn(term, env) if term else None)], salt=len(accname) + len(seedname) + bool(reduce) + len(term or ''))


def _tee_build(node, env, taps, path):
    _, join, branches = node
    built = [_pipeline_form(build(b, env, taps, path + (('b', j),)), path + (j,), allow_list=True) for j, b in enumerate(branches)]
    if any(type(b) is list for b in built):
        rs.ops.tee_map(*built, join=join)        # (the caller's lists serve a second operator: see build_node)
    return rs.ops.tee_map(*built, join=join)


def _pipeline_form(ops_, path, allow_list=True):
    """The documented ways of handing a sub-pipeline to an operator - a list of operators, one composed
    operator (rx.pipe), a single operator - chosen as a pure function of the position in the program, so that a
    replay builds the same thing."""
    k = (len(path) * 5 + sum(x for x in path if isinstance(x, int)) + len(ops_)) % 3
    if k == 0 and allow_list:
        return list(ops_)
    if k == 1 and len(ops_) == 1:
        return ops_[0]
    return rx.pipe(*ops_)


_CALL_COUNTER = [0]
_identity = lambda i: i                                    # noqa: E731
# progress labels: ordinary text, and text that a formatter would interpret (braces, percent signs)
PROGRESS_NAMES = ['p', 'data/{date}.csv', '{}', "{'shard': 3}", '100%', 'step {0} %s', 'p\xe9']


def call(f, args, salt=None):
    """f(*positional, **keywords) with the DOCUMENTED parameter names and order given by `args`, a list of
    (name, value): the first j values go positionally, the others by keyword; j cycles with `salt` (or with a
    process-wide counter), so both conventions - and every mix - meet every public function.  A signature whose order
    or names drift from the documentation shows as soon as the other convention is used."""
    if salt is None:
        _CALL_COUNTER[0] += 1
        salt = _CALL_COUNTER[0]
    j = salt % (len(args) + 1)
    try:
        return f(*[v for _, v in args[:j]], **{k: v for k, v in args[j:]})
    except TypeError as e:
        import traceback
        if len(traceback.extract_tb(e.__traceback__)) <= 1:
            # raised by the call itself (argument binding), not inside the function: the signature no longer accepts the
            # documented names / order
            from .common import DocumentedCallRejected
            raise DocumentedCallRejected('%s(%s positional, %s by keyword): %s' % (getattr(f, '__name__', f), [k for k, _ in args[:j]],
                                                                                   [k for k, _ in args[j:]], e)) from None
        raise


OPS = {}


def _reg(name, accepts, out, build, flags=()):
    OPS[name] = Op(name, accepts, out, build, flags)


_same = lambda t, n: t                                   # noqa: E731
_reg('map', '*', lambda t, n: FUNC_SIG[n[1].split(':')[0]][1], lambda n, e: rs.ops.map(fn(n[1], e)), ['dual'])
_reg('starmap', 't', 'i', lambda n, e: rs.ops.starmap(fn(n[1], e)), ['dual'])
_reg('filter', '*', _same, lambda n, e: rs.ops.filter(fn(n[1], e)), ['dual'])
_reg('flat_map', 'l', 'i', lambda n, e: rs.ops.flat_map(), ['dual'])
_reg('scan', '*', lambda t, n: SEED_TYPE[n[2]], _scan_build, ['dual', 'stateful'])
_reg('count', '*', 'i', lambda n, e: call(rs.ops.count, [('reduce', n[1])]), ['dual', 'stateful'])
_reg('sum', 'if', 'f', lambda n, e: call(rs.math.sum, [('key_mapper', _identity), ('reduce', n[1])]), ['dual', 'stateful'])
_reg('mean', 'if', 'f', lambda n, e: call(rs.math.mean, [('key_mapper', _identity), ('reduce', n[1])]), ['dual', 'stateful'])
_reg('min', 'if', lambda t, n: ('o' if t == 'i' else 'x') if n[1] else t, lambda n, e: call(rs.math.min, [('key_mapper', _identity), ('reduce', n[1])]), ['dual', 'stateful'])
_reg('max', 'if', lambda t, n: ('o' if t == 'i' else 'x') if n[1] else t, lambda n, e: call(rs.math.max, [('key_mapper', _identity), ('reduce', n[1])]), ['dual', 'stateful'])
_reg('variance', 'if', 'f', lambda n, e: call(rs.math.variance, [('key_mapper', _identity), ('reduce', n[1])]), ['dual', 'stateful'])
_reg('stddev', 'if', 'f', lambda n, e: call(rs.math.stddev, [('key_mapper', _identity), ('reduce', n[1])]), ['dual', 'stateful'])
_reg('fvariance', 'if', 'f', lambda n, e: rs.math.formal.variance(reduce=n[1]), ['dual', 'stateful'])
_reg('fstddev', 'if', 'f', lambda n, e: rs.math.formal.stddev(reduce=n[1]), ['dual', 'stateful'])
_reg('first', '*', _same, lambda n, e: rs.ops.first(), ['dual', 'stateful', 'early'])
_reg('last', '*', _same, lambda n, e: rs.ops.last(), ['dual', 'stateful', 'completion'])
_reg('take', '*', _same, lambda n, e: call(rs.ops.take, [('count', n[1])]), ['dual', 'stateful', 'early'])
_reg('to_list', '*', 'x', lambda n, e: rs.data.to_list(), ['dual', 'stateful', 'completion'])
_reg('to_array', 'i', 'x', lambda n, e: call(rs.data.to_array, [('typecode', n[1])]), ['dual', 'stateful', 'completion'])
_reg('duc', '*', _same, lambda n, e: rs.ops.distinct_until_changed(fn(n[1], e) if n[1] else None), ['dual', 'stateful'])
_reg('clip', 'if', _same, lambda n, e: call(rs.data.clip, [('lower_bound', n[1]), ('higher_bound', n[2])]), ['dual'])
_reg('fill_none', 'on', lambda t, n: 'i' if t == 'o' else 'n', lambda n, e: call(rs.data.fill_none, [('value', n[1])]), ['dual'])
_reg('batch', '*', 'x', lambda n, e: call(rs.data.batch, [('batch_size', n[1])]), ['dual', 'stateful', 'completion'])
_reg('identity', '*', _same, lambda n, e: rs.ops.identity(), ['dual'])
_reg('do_action', '*', _same, lambda n, e: rs.ops.do_action(on_next=(e or {}).get('do_action', lambda i: None)), ['dual'])
_reg('assert_', '*', _same, lambda n, e: call(rs.ops.assert_, [('predicate', fn(n[1], e)), ('name', 'a')]), ['dual'])
_reg('assert_1', '*', _same, lambda n, e: call(rs.ops.assert_1, [('predicate', fn(n[1], e)), ('name', 'a1')]), ['dual', 'stateful'])
_reg('progress', '*', _same, lambda n, e: call(rs.ops.progress, [('name', PROGRESS_NAMES[(n[1] + bool(n[2])) % len(PROGRESS_NAMES)]), ('threshold', n[1]), ('measure_throughput', n[2])]), ['dual', 'stateful'])
# mux only
_reg('distinct', 'iotfp', _same, lambda n, e: rs.ops.distinct(fn(n[1], e) if n[1] else None), ['stateful', 'mux_only'])
_reg('lag', '*', 'x', lambda n, e: call(rs.data.lag, [('size', n[1])]), ['stateful', 'mux_only'])
_reg('pad_start', '*', _same, lambda n, e: call(rs.data.pad_start, [('size', n[1]), ('value', pad_value(n[2]))]), ['stateful', 'mux_only'])
_reg('pad_end', '*', _same, lambda n, e: call(rs.data.pad_end, [('size', n[1]), ('value', pad_value(n[2]))]), ['stateful', 'mux_only', 'completion'])
def _a_plain_function(*a):
    return None


_CALLABLE_VALUES = {'str': str, 'len': len, 'function': _a_plain_function, 'partial': functools.partial(int, '7')}


def pad_value(v):
    """a padding VALUE of the DSL: {'callable': name} stands for a value that happens to be callable (a converter, a dtype, a
    handler used as the default of a stream of such): it is a value like any other and is emitted as it is"""
    if isinstance(v, dict) and 'callable' in v:
        return _CALLABLE_VALUES[v['callable']]
    return v


def include_flag(cfg):
    """the include_closing_item flag of a time_split cfg; cfg['include_as'] gives it as a truthy / falsy value that is not the
    object True / False (a numpy.bool_ read from a settings table, a 0 / 1 from a command line)"""
    v = cfg.get('include', True)
    how = cfg.get('include_as')
    if how == 'numpy':
        return _np.bool_(v)
    if how == 'int':
        return int(v)
    return v


def padding_of(n):
    """the padding of a start_with node as the container its third field names: the items to prepend are given as a list or - as in
    the operator's own documentation - a tuple, or any other re-iterable (a range, a deque, the keys of a dict, a numpy array)"""
    vals = [pad_value(v) for v in n[1]]
    kind = n[2] if len(n) > 2 else 'list'
    if kind == 'tuple':
        return tuple(vals)
    if kind == 'deque':
        return _collections.deque(vals)
    if kind == 'keys':
        return dict.fromkeys(vals).keys()
    if kind == 'range':
        return range(vals[0], vals[0] + len(vals)) if vals else range(0)
    if kind == 'nparray':
        return _np.array(vals, dtype='int64')
    return vals


_reg('start_with', '*', _same, lambda n, e: call(rs.ops.start_with, [('padding', padding_of(n))]), ['stateful', 'mux_only'])
# error handlers (C13)
# an RxPY-native operator with inner observables (only placed by C08, in branches on plain observables): its inner
# subscriptions are scheduler-driven, so on a cold trampolined source they emit after the source has completed
_reg('rxflat', 'i', 'i', lambda n, e: _rxops.flat_map(lambda x: rx.from_([x, x + 1])), ['dual'])
# an RxPY-native pass-through (a do_action left in for logging, a user operator written with rx.create) as the LAST operator of a
# branch on a multiplexed source (only placed by C08): it forwards the mux events unchanged but returns a plain rx Observable
_reg('rxtap', '*', _same, lambda n, e: _rxops.do_action(on_next=lambda x: None), ['dual'])
_reg('ignore', '*', _same, lambda n, e: rs.error.ignore(), ['mux_only'])
_reg('error_map', '*', _same, lambda n, e: rs.error.map((e or {}).get('error_map', lambda err: -1)), ['mux_only'])
_reg('route', '*', _same, lambda n, e: e['route'](), ['mux_only'])

CONTEXTS = ('group_by', 'roll', 'split', 'time_split', 'tee_map')

# (in type, out type) of the named functions usable with map
FUNC_SIG = {
    'add': ('i', 'i'), 'mul': ('i', 'i'), 'mod': ('i', 'i'), 'div': ('i', 'i'), 'neg': ('i', 'i'), 'id': ('*', None),
    'pair': ('i', 't'), 'pairmod': ('i', 't'), 'rep': ('i', 'l'), 'upto': ('i', 'l'), 'opt': ('i', 'o'),
    'half': ('i', 'f'), 'tofloat': ('i', 'f'), 'nt': ('i', 'n'), 'ntsum': ('n', 'i'), 'sub': ('i', 'i'), 'tonp': ('i', 'p'), 'frompy': ('p', 'i'), 'kmix': ('i', 'x'), 'trunc': ('f', 'i'), 'scale10': ('f', 'i'),
    't0': ('t', 'i'), 't1': ('t', 'i'), 'tsum': ('t', 'i'), 'len': ('l', 'i'), 'lsum': ('l', 'i'),
    'isnone': ('o', 'i'), 'digest': ('*', 'i'), 'raise_on': ('*', None),
}
SEED_TYPE = {'none': 'x', 'zero': 'i', 'zerof': 'f', 'list': 'x', 'list_factory': 'x', 'dict_factory': 'x', 'pair00': 't',
             'neg1': 'i', 'arr_factory': 'x', 'one': 'i', 'nested': 'x', 'box': 'x', 'tbox': 'x', 'npvec': 'x',
             'list_partial': 'x', 'list_callable_object': 'x', 'list_lru': 'x', 'sentinel_factory': 'x', 'ndict': 'x', 'nlist': 'x', 'phase': 'x', 'ddict': 'x'}


def out_type(node, t):
    name = node[0]
    if name == 'tee_map':
        return 'x'
    if name in ('group_by', 'roll', 'split', 'time_split'):
        return pipeline_type(node[-1], t)
    op = OPS[name]
    o = op.out
    if callable(o):
        o = o(t, node)
        if o is None:
            o = t
    if name == 'map' and node[1].startswith('raise_on:'):
        inner = ':'.join(node[1].split(':')[2:])
        o = FUNC_SIG[inner.split(':')[0]][1] or t
    return o


INT_FUNCS = {'kapprox', 'kobj', 'sub', 'tonp', 'knp', 'modnp', 'divnp', 'divnpf', 'npgt', 'kcent', 'divcent', 'divbool', 'divnone', 'divnan', 'divnant', 'divobj', 'divobjt', 'divtag', 'divcls', 'kcls', 'divsloppy', 'ksloppy', 'add', 'mul', 'mod', 'div', 'neg', 'pair', 'pairmod', 'rep', 'upto', 'opt', 'half', 'tofloat', 'nt', 'even', 'odd',
             'modeq', 'modeqnone', 'modeqstr', 'modne', 'modtruthy', 'kt', 'ks', 'kbig', 'kf', 'kmix', 'kneg', 'kmers', 'ktneg', 'divt', 'divs', 'divbig', 'divhuge', 'divf', 'divpar'}
NUM_FUNCS = {'gt', 'lt', 'trunc', 'scale10'}
ANY_FUNCS = {'id', 'digest', 'dgt', 'true', 'false', 'kdig', 'digpar', 'ktype'}
TYPED_FUNCS = {'frompy': 'p', 't0': 't', 't1': 't', 'tsum': 't', 'len': 'l', 'lsum': 'l', 'isnone': 'o', 'ntsum': 'n'}
INT_ACCS = {'acc_add', 'acc_addsq', 'acc_max', 'acc_pair', 'acc_npvec'}


def fn_accepts(name, t):
    if not name:
        return True
    parts = name.split(':')
    if parts[0] == 'raise_on':
        return fn_accepts(':'.join(parts[2:]), t)
    b = parts[0]
    if b in ANY_FUNCS:
        return True
    if b in INT_FUNCS:
        return t == 'i'
    if b in NUM_FUNCS:
        return t in ('i', 'f') if b in ('gt', 'lt') else t == 'f'
    if b in TYPED_FUNCS:
        return t == TYPED_FUNCS[b]
    return True


def node_accepts(node, t):
    """is `node` applicable to items of type t (used to validate shrunk programs)"""
    name = node[0]
    if name == 'tee_map':
        return all(well_typed(b, t) is not None for b in node[2])
    if name == 'group_by' or name == 'split':
        return fn_accepts(node[1], t) and well_typed(node[-1], t) is not None
    if name == 'roll':
        return well_typed(node[-1], t) is not None
    if name == 'time_split':
        return t == 'i' and well_typed(node[-1], t) is not None
    op = OPS[name]
    if op.accepts != '*' and t not in op.accepts:
        return False
    if name in ('map', 'filter', 'duc', 'distinct', 'assert_'):
        return fn_accepts(node[1], t)
    if name == 'scan':
        if node[1] in INT_ACCS:
            return t == 'i'
        if node[1] == 'acc_addf':
            return t in ('i', 'f')
    if name in ('pad_start', 'pad_end'):
        return node[2] is None or t == 'i'
    if name == 'start_with':
        return t == 'i'
    return True


def well_typed(prog, t='i'):
    """-> output type, or None when some operator is applied to a type it does not accept"""
    for n in prog:
        if not node_accepts(n, t):
            return None
        t = out_type(n, t)
    return t


def pipeline_type(prog, t):
    for n in prog:
        t = out_type(n, t)
    return t


# ---------------------------------------------------------------------------
# building real operators

def build_node(node, env=None, taps=None, path=()):
    name = node[0]
    if name == 'prebuilt':
        return node[1]          # an operator object built earlier (and possibly used in another pipeline already)
    if name == 'tee_map':
        return _tee_build(node, env, taps, path)
    if name in ('group_by', 'roll', 'split', 'time_split'):
        inner = build(node[-1], env, taps, path)
        if taps and path in taps:
            from .muxmon import tap
            head, tail = taps[path]
            head = tap(head) if isinstance(head, list) else head       # a log, or a prebuilt tap operator
            tail = tap(tail) if isinstance(tail, list) else tail
            inner = ([head] if head is not None else []) + inner + ([tail] if tail is not None else [])
        inner = _pipeline_form(inner, path)

        salt = len(path) * 7 + sum(x for x in path if isinstance(x, int)) + len(str(node[1]))

        def make():
            if name == 'group_by':
                return call(rs.ops.group_by, [('key_mapper', fn(node[1], env)), ('pipeline', inner)], salt)
            if name == 'roll':
                return call(rs.data.roll, [('window', node[1]), ('stride', node[2]), ('pipeline', inner)], salt + int(node[1]) + int(node[2]))
            if name == 'split':
                return call(rs.data.split, [('predicate', fn(node[1], env)), ('pipeline', inner)], salt)
            cfg = node[1]
            conv = (lambda v: None if v is None else _timedelta(seconds=v)) if cfg.get('time') in ('dt', 'dtz') else \
                (lambda v: None if v is None else _timedelta(milliseconds=v)) if cfg.get('time') == 'dtms' else (lambda v: v)
            return call(rs.data.time_split, [
                ('time_mapper', fn(cfg.get('time', 'id'), env)),
                ('active_timeout', conv(cfg.get('active'))), ('inactive_timeout', conv(cfg.get('inactive'))),
                ('closing_mapper', fn(cfg['closing'], env) if cfg.get('closing') else None),
                ('include_closing_item', include_flag(cfg)), ('pipeline', inner)], salt + (cfg.get('active') or 0) + 3 * (cfg.get('inactive') or 0))
        if type(inner) is list:
            # a pipeline given as a list belongs to the caller, who may hand the same list to a second operator
            # (the same per-window aggregation at two window sizes): the operator judged is that second one
            make()
        return make()
    return OPS[name].build(node, env)


def build(prog, env=None, taps=None, path=()):
    """-> list of freshly built rxsci operators.  `taps` maps a context path (tuple of node
    indices, ('b', j) for tee branches) to (head_log, tail_log)."""
    return [build_node(n, env, taps, path + (k,)) for k, n in enumerate(prog)]


class Controlled:
    """A hot source under harness control (a Subject that can be reused after a terminal event): push / complete /
    error go to every subscription that has not been disposed.  Lets one observable be given a HISTORY -
    subscriptions that are disposed mid-stream, that die of a source error, or whose consumer raises - before the
    judged subscription.  A chain that stays subscribed after its subscriber disposed keeps being fed, as it would
    be by any live source."""

    def __init__(self):
        self.observers = []
        self.late = []          # subscriptions of the history that are disposed only AFTER the judged one has subscribed

        def on_subscribe(observer, scheduler=None):
            from rx.disposable import Disposable
            self.observers.append(observer)

            def dispose():
                if observer in self.observers:
                    self.observers.remove(observer)
            return Disposable(dispose)
        self.observable = rx.create(on_subscribe)

    @property
    def observer(self):
        return self.observers[-1] if self.observers else None

    def push(self, x):
        for o in list(self.observers):
            o.on_next(x)

    def complete(self):
        obs, self.observers = list(self.observers), []
        for o in obs:
            o.on_completed()

    def error(self, e):
        obs, self.observers = list(self.observers), []
        for o in obs:
            o.on_error(e)


class _ConsumerFailure(Exception):
    pass


def subscribe_list(op, items):
    """rx.from_(items).pipe(op) -> list of what it emits, a terminal error as a last ('ERROR', repr) entry"""
    got = []
    try:
        rx.from_(list(items)).pipe(op).subscribe(on_next=got.append, on_error=lambda e: got.append(('ERROR', repr(e))))
    except Exception as e:          # noqa: BLE001
        got.append(('ERROR', repr(e)))
    return got


def twin_subscriptions(make, items, out, what, digest_fn):
    """Two observers of the SAME observable alive at the same time on one pushed source (a Subject with two
    subscribers and no share()): each owes the events a single subscriber gets.  digest_fn(list of items) -> value
    compared between the two and returned."""
    from .common import Snap
    src = Controlled()
    obs = make(src.observable)
    a, b = Snap(), Snap()
    try:
        obs.subscribe(on_next=a.on_next, on_error=a.on_error, on_completed=a.on_completed)
        obs.subscribe(on_next=b.on_next, on_error=b.on_error, on_completed=b.on_completed)
        for x in items:
            src.push(x)
        src.complete()
    except Exception as e:              # noqa: BLE001
        for sn in (a, b):
            if sn.err is None and not sn.done:
                sn.err = e
    out.observed['pairs_of_concurrently_alive_subscriptions'] += 1
    da = digest_fn(a.out) if a.err is None else None
    db = digest_fn(b.out) if b.err is None else None
    if a.err is not None or b.err is not None or not a.done or not b.done or da != db:
        out.fail('two-concurrently-alive-subscriptions-of-one-observable-differ', what=what,
                 first={'error': repr(a.err), 'done': a.done, 'n': len(a.out)}, second={'error': repr(b.err), 'done': b.done, 'n': len(b.out)},
                 first_digest=repr(da)[:120], second_digest=repr(db)[:120])
        return None
    return da


def staggered_subscriptions(make, items, out, what, digest_fn):
    """Three streams through the SAME operator object whose lifetimes are staggered: a long-lived stream A is open; a stream B
    starts and ends while A is open; a stream C starts while A is still open; A ends; C ends.  (A module-level operator serving
    a long-running pushed log while files are processed with it.)  Each stream has its own pushed source and owes the
    events a stream processed alone gets.  digest_fn(list of items) -> value compared between the three and returned."""
    from .common import Snap
    srcs = [Controlled() for _ in range(3)]
    snaps = [Snap() for _ in range(3)]
    items = list(items)
    h = len(items) // 2
    t = len(items) // 3

    def start(k):
        make(srcs[k].observable).subscribe(on_next=snaps[k].on_next, on_error=snaps[k].on_error, on_completed=snaps[k].on_completed)
    try:
        start(0)
        for x in items[:h]:
            srcs[0].push(x)
        start(1)
        for x in items:
            srcs[1].push(x)
        srcs[1].complete()
        start(2)
        for x in items[:t]:
            srcs[2].push(x)
        for x in items[h:]:
            srcs[0].push(x)
        srcs[0].complete()
        for x in items[t:]:
            srcs[2].push(x)
        srcs[2].complete()
    except Exception as e:              # noqa: BLE001
        for sn in snaps:
            if sn.err is None and not sn.done:
                sn.err = e
    out.observed['triples_of_staggered_subscriptions'] += 1
    digests = []
    for sn in snaps:
        try:
            digests.append(digest_fn(sn.out) if sn.err is None else None)
        except Exception as e:          # noqa: BLE001
            digests.append('digest failed: %r' % (e,))
    if any(sn.err is not None or not sn.done for sn in snaps) or digests[0] != digests[1] or digests[0] != digests[2]:
        out.fail('staggered-subscriptions-through-one-operator-object-differ', what=what,
                 streams=[{'error': repr(sn.err), 'done': sn.done, 'n': len(sn.out), 'digest': repr(d)[:100]} for sn, d in zip(snaps, digests)])
        return None
    return digests[0]


def dump_pushed(make, rows, path, out, what, twin=None):
    """A dump fed by a pushed (hot, not trampolined) source, whose consumer reads the file back from inside the
    completion callback - the streaming application that post-processes the file when the dump completes.
    At that moment the file must already be complete and closed: -> Snap of the dump."""
    from .common import Snap
    import os
    src = Controlled()
    snap = Snap()
    seen = []

    def on_completed():
        try:
            with open(path, 'rb') as f:
                seen.append(f.read())
        except Exception as e:          # noqa: BLE001
            seen.append(e)
        snap.on_completed()
    try:
        make(src.observable).subscribe(on_next=snap.on_next, on_error=snap.on_error, on_completed=on_completed)
        if twin is not None:
            # a second dump of the same kind, to another file, alive at the same time and fed the same records
            # ("split a stream into several outputs"); the caller reads that file back as well
            twin(src.observable).subscribe(on_next=lambda i: None, on_error=lambda e: None, on_completed=lambda: None)
        for r in rows:
            src.push(r)
        src.complete()
    except Exception as e:              # noqa: BLE001
        if snap.err is None:
            snap.err = e
    if snap.done and os.path.exists(path):
        with open(path, 'rb') as f:
            final = f.read()
        out.observed['files_read_back_inside_the_completion_callback'] += 1
        if not seen or isinstance(seen[0], Exception) or seen[0] != final:
            out.fail('file-not-complete-when-completion-is-signalled', what=what,
                     at_completion=(repr(seen[0]) if seen and isinstance(seen[0], Exception) else (len(seen[0]) if seen else None)),
                     final_size=len(final))
    return snap


NP_PARAM_POS = {'take': [1], 'lag': [1], 'pad_start': [1], 'pad_end': [1], 'batch': [1], 'roll': [1, 2]}


def np_params(node, kind='int64'):
    """the node with its size parameters given as numpy integers (configuration computed with numpy): comparisons
    with them return numpy.bool_, which is not the object True"""
    node = list(node)
    for k in NP_PARAM_POS.get(node[0], ()):
        if isinstance(node[k], int) and not isinstance(node[k], bool):
            if kind in ('int8', 'uint8', 'int16') and not (0 <= node[k] <= _np.iinfo(kind).max):
                kind_k = 'int64'
            else:
                kind_k = kind
            node[k] = getattr(_np, kind_k)(node[k])
    return node


def usable_prelude(prog, prelude):
    """tee_map publishes its source (RxPY publish() / connect()): once that subject has seen a terminal event -
    the source error of an aborted run - every later subscription only receives that event again.  A pipeline
    holding a tee_map is therefore only given the aborted runs that end without a terminal event."""
    if prelude and 'tee_map' in op_names(prog):
        return [p for p in prelude if p[0] in ('dispose', 'peek')]      # (and no 'overlap': one ConnectableObservable, one connection)
    return prelude


def play_prelude(obs, src, items, prelude):
    """Aborted subscriptions of `obs` (built on the Controlled source `src`), in order:
       ['dispose', k]        - k items are pushed, then the subscription is disposed
       ['source_error', k]   - k items are pushed, then the source signals on_error
       ['consumer_raise', j] - everything is pushed; the consumer's on_next raises at its j-th item
       ['peek', j]           - take(j) placed after the pipeline (the usual "look at the first records")
    Nothing is judged here; whatever these leave behind must not show in the judged subscription."""
    import rx.operators as rxops
    from .muxmon import suspended
    with suspended():
        return _play_prelude(obs, src, items, prelude, rxops)


def _play_prelude(obs, src, items, prelude, rxops):
    n_done = 0
    if prelude and prelude[0][0] == 'feed':
        # (the history is fed its own - longer - stream, see common.with_prelude)
        items, prelude = prelude[0][1], prelude[1:]
    for step_no, (kind, k) in enumerate(prelude):
        if kind == 'overlap' and step_no != len(prelude) - 1:
            kind = 'dispose'        # (two live subscriptions must not both receive items: only the last step may overlap)
        k = max(0, min(k, len(items)))
        seen = [0]

        def on_next(_x, kind=kind, k=k, seen=seen):
            seen[0] += 1
            if kind == 'consumer_raise' and seen[0] > k:
                raise _ConsumerFailure('the consumer failed on item %d' % k)
        target = obs.pipe(rxops.take(max(1, k))) if kind == 'peek' else obs
        d = None
        try:
            d = target.subscribe(on_next=on_next, on_error=lambda e: None, on_completed=lambda: None)
            feed = items if kind in ('consumer_raise', 'peek') else items[:k]
            for x in feed:
                src.push(copy.deepcopy(x))
            if kind == 'source_error':
                src.error(Boom('the source failed after %d items' % k))
            elif kind == 'dispose':
                pass
            elif kind == 'overlap':
                # a consumer swap: the new subscription is made first, the old one disposed right after (no item in between)
                src.late.append(d)
                d = None
            elif kind == 'peek':
                pass            # (a peek that was not satisfied is disposed like any other: it never sees a completion)
            elif kind == 'consumer_raise':
                src.complete()
        except Exception:          # noqa: BLE001 - the failure of an aborted run is not judged
            pass
        finally:
            if d is not None:
                try:
                    d.dispose()
                except Exception:  # noqa: BLE001
                    pass
        n_done += 1
    return n_done


def drive(obs, src, items, snap):
    """The judged subscription on a Controlled source."""
    try:
        obs.subscribe(on_next=snap.on_next, on_error=snap.on_error, on_completed=snap.on_completed)
        release_late(src)
        for x in items:
            src.push(x)
        src.complete()
    except Exception as e:          # noqa: BLE001
        if snap.err is None:
            snap.err = e
            snap.raised = True
    return snap


def release_late(src):
    late, src.late = src.late, []
    for d in late:
        try:
            d.dispose()
        except Exception:           # noqa: BLE001 - the old subscription's own failure is not judged
            pass


def _into(snap, result):
    """copy `result` into the caller's Snap object, if one was given"""
    if snap is None or snap is result:
        return result
    for a in ('out', 'err', 'done', 'pos', 'after_end'):
        setattr(snap, a, getattr(result, a))
    if hasattr(result, 'raised'):
        snap.raised = result.raised
    return snap


def clear_logs(taps):
    for v in (taps or {}).values():
        for log in v:
            if isinstance(log, list):
                del log[:]


def run_mux(prog, items, env=None, taps=None, store_factory=None, snap=None, again=None, prelude=None):
    """items -> Snap, through with_store(...) on a plain source (one top-level key)."""
    from .common import Snap, subscribe
    ops_ = build(prog, env, taps)
    if store_factory is None:
        w = rs.state.with_memory_store(ops_)
    else:
        w = rs.state.with_store(rs.state.StoreManager(store_factory=store_factory), ops_)
    prelude = usable_prelude(prog, prelude)
    if prelude:
        # the same observable first lives through aborted subscriptions, then serves the judged one
        src = Controlled()
        obs = src.observable.pipe(w)
        play_prelude(obs, src, items, prelude)
        clear_logs(taps)
        first = drive(obs, src, items, Snap())
        if first.err is not None:
            # Is the error a consequence of the history?  The same program on the same input WITHOUT history decides:
            # if it errors as well (a program outside the domain, e.g. mean(reduce) of an empty key - which may have
            # killed the aborted run too, leaving a tee_map's publish subject in its terminal state) that run is the
            # one handed to the oracle.
            clear_logs(taps)
            fresh = run_mux(prog, items, env, taps, store_factory, None, again, None)
            if fresh.err is not None:
                return _into(snap, fresh)
            clear_logs(taps)
            return _into(snap, first)
        if again is not None:
            drive(obs, src, items, again)
        return _into(snap, first)
    obs = rx.from_(items).pipe(w)
    first = subscribe(obs, snap or Snap())
    if again is not None:
        # the SAME observable subscribed a second time (ops.repeat / retry, a second observer): every
        # subscription owes the same events, so per-key state must belong to the subscription
        subscribe(obs, again)
    return first


def run_plain(prog, items, env=None, snap=None):
    from .common import Snap, subscribe
    ops_ = build(prog, env)
    return subscribe(rx.from_(items).pipe(*ops_) if ops_ else rx.from_(items), snap or Snap())


def run_obs(make, items, prelude=None, logs=(), snap=None):
    """make(source) -> observable.  Without a history: subscribe make(rx.from_(items)).  With one: the observable
    is built ONCE on a Controlled source, lives through the aborted subscriptions, the tap logs are emptied, and
    the judged subscription follows."""
    from .common import Snap, subscribe
    if not prelude:
        return subscribe(make(rx.from_(items)), snap or Snap())
    src = Controlled()
    obs = make(src.observable)
    play_prelude(obs, src, items, prelude)
    for log in logs:
        del log[:]
    first = drive(obs, src, items, Snap())
    if first.err is not None:
        # (see run_mux: an error that the same observable also produces without any history is not the history's)
        for log in logs:
            del log[:]
        fresh = subscribe(make(rx.from_(items)), Snap())
        if fresh.err is not None:
            return _into(snap, fresh)
        for log in logs:
            del log[:]
    return _into(snap, first)


def run_driven(prog, items, mode='mux', env=None, prelude=None):
    """Subject-driven run: the cursor holds the index of the item being pushed (len(items) while the
    source completes); the Snap records it for every output (snap.pos)."""
    from rx.subject import Subject
    from .common import Snap
    cursor = [None]
    snap = Snap(cursor)
    ops_ = build(prog, env)
    prelude = usable_prelude(prog, prelude)
    if mode != 'mux' and 'tee_map' in op_names(prog):
        # on a plain observable first / take complete their branch early: a tee_map behind them then publishes a
        # source that completed during the aborted run, and only completes in every later one (RxPY publish())
        prelude = None
    if prelude:
        subj = Controlled()
        obs = subj.observable.pipe(rs.state.with_memory_store(ops_)) if mode == 'mux' else (subj.observable.pipe(*ops_) if ops_ else subj.observable)
        play_prelude(obs, subj, items, prelude)
        try:
            obs.subscribe(on_next=snap.on_next, on_error=snap.on_error, on_completed=snap.on_completed)
            release_late(subj)
            for j, x in enumerate(items):
                cursor[0] = j
                subj.push(x)
            cursor[0] = len(items)
            subj.complete()
        except Exception as e:          # noqa: BLE001
            if snap.err is None:
                snap.err = e
        if snap.err is not None:
            fresh = run_driven(prog, items, mode, env, None)       # (see run_mux)
            if fresh.err is not None:
                return fresh
        return snap
    subj = Subject()
    if mode == 'mux':
        obs = subj.pipe(rs.state.with_memory_store(ops_))
    else:
        obs = subj.pipe(*ops_) if ops_ else subj
    try:
        obs.subscribe(on_next=snap.on_next, on_error=snap.on_error, on_completed=snap.on_completed)
        for j, x in enumerate(items):
            cursor[0] = j
            subj.on_next(x)
        cursor[0] = len(items)
        subj.on_completed()
    except Exception as e:          # noqa: BLE001
        if snap.err is None:
            snap.err = e
    return snap


# ---------------------------------------------------------------------------
# introspection helpers

def walk(prog, path=()):
    """yield (path, node) for every node, depth first"""
    for k, n in enumerate(prog):
        p = path + (k,)
        yield p, n
        if n[0] == 'tee_map':
            for j, b in enumerate(n[2]):
                yield from walk(b, p + (('b', j),))
        elif n[0] in ('group_by', 'roll', 'split', 'time_split'):
            yield from walk(n[-1], p)


def op_names(prog):
    return [n[0] for _, n in walk(prog)]


def depth(prog):
    d = 0
    for n in prog:
        if n[0] == 'tee_map':
            d = max(d, 1 + max((depth(b) for b in n[2]), default=0))
        elif n[0] in ('group_by', 'roll', 'split', 'time_split'):
            d = max(d, 1 + depth(n[-1]))
    return d


def has_flag(node, flag):
    name = node[0]
    if name in CONTEXTS:
        return False
    f = OPS[name].flags
    if flag == 'completion':
        if name in ('scan',):
            return bool(node[3]) or bool(node[4])
        if name in ('count', 'sum', 'mean', 'min', 'max', 'variance', 'stddev', 'fvariance', 'fstddev'):
            return bool(node[1])
    return flag in f


def emits_at_completion(prog):
    """does the pipeline contain an operator that emits when its key completes"""
    for _, n in walk(prog):
        if n[0] not in CONTEXTS and has_flag(n, 'completion'):
            return True
        if n[0] in ('roll', 'split', 'time_split', 'group_by'):
            return True          # lifetimes of inner keys end with the parent
    return False

"""E3 - causal reference model (no rx, no state store).

An operator is a function from the values of ONE key lifetime to a list of (trigger, value),
trigger in 0..n being the index of the input event that causes the emission (n = completion
of the lifetime).  Composition maps triggers through; contexts translate local triggers to
the parent's.  Multiplexed semantics: take/first leave the completion where it is.
"""
import copy
import math
from array import array

from .progs import fn, seed as mkseed, CONTEXTS


class Discard(Exception):
    """the case is outside the stated preconditions (decided by the model, never by 'the
    plain run raised')"""


def _ident(xs):
    return [(i, v) for i, v in enumerate(xs)]


def _scan(acc, seedv, reduce, term):
    def op(xs):
        a = seedv() if callable(seedv) else copy.deepcopy(seedv)
        out = []
        n = len(xs)
        for i, v in enumerate(xs):
            a = acc(a, v)
            if not reduce:
                out.append((i, copy.deepcopy(a)))
        if term:
            a = term(a)
            if not reduce:
                out.append((n, copy.deepcopy(a)))
        if reduce:
            out.append((n, copy.deepcopy(a)))
        return out
    return op


def _then_map(op, f):
    return lambda xs: [(t, f(v)) for t, v in op(xs)]


def _mean(reduce, plain):
    s = _scan(lambda a, i: (a[0] + i, a[1] + 1), (0, 0), reduce, None)

    def f(a):
        if a[1] == 0:
            raise Discard('mean of an empty key')
        return a[0] / a[1]
    return _then_map(s, f)


def _welford(a, i):
    m, s, k = a
    k = k + 1
    if m is None:
        m = i
    else:
        m1 = m
        m = m + (i - m) / k
        s = s + (i - m1) * (i - m)
    return (m, s, k)


def _variance(reduce):
    return _then_map(_scan(_welford, (None, 0, 0), reduce, None), lambda a: 0.0 if a[2] < 2 else a[1] / (a[2] - 1))


def _moment(x, c, n):
    m = []
    for i in range(len(x)):
        m.append((x[i] - c) ** n)
    return sum(m) / len(x) if len(x) > 0 else None


def _fvar_value(acc):
    if len(acc) == 0:
        return 0.0
    return _moment(acc, _moment(acc, 0, 1), 2)


def _fvariance(reduce):
    return _then_map(_scan(lambda a, i: a + [i], [], reduce, None), _fvar_value)


def _duc(keyf):
    def op(xs):
        out = []
        prev = None
        for i, v in enumerate(xs):
            k = keyf(v) if keyf else v
            try:
                changed = bool(i == 0 or k != prev)
            except ValueError:
                # numpy arrays of more than one element have no truth value: comparing them with != is the
                # user's type error, not a behaviour of distinct_until_changed
                raise Discard('distinct_until_changed on values whose != has no truth value (numpy arrays)')
            if changed:
                out.append((i, v))
            prev = k
        return out
    return op


def _distinct(keyf):
    def op(xs):
        seen = set()
        out = []
        for i, v in enumerate(xs):
            k = keyf(v) if keyf else v
            if k not in seen:
                seen.add(k)
                out.append((i, v))
        return out
    return op


def _batch(k):
    def op(xs):
        n = len(xs)
        out = []
        for i in range(0, n, k):
            ch = list(xs[i:i + k])
            out.append((i + k - 1 if len(ch) == k else n, ch))
        return out
    return op


def _clip(lo, hi):
    def f(i):
        if lo is not None and hi is not None:
            return max(min(i, hi), lo)
        if lo is None and hi is None:
            return i
        if lo is None:
            return min(i, hi)
        return max(i, lo)
    return f


def op_model(node, env=None, plain=False):
    """-> function(list of values) -> list of (trigger, value) for a non-context node"""
    name = node[0]
    if name == 'map':
        f = fn(node[1], env)
        return lambda xs: [(i, f(v)) for i, v in enumerate(xs)]
    if name == 'starmap':
        f = fn(node[1], env)
        return lambda xs: [(i, f(*v)) for i, v in enumerate(xs)]
    if name == 'filter':
        p = fn(node[1], env)
        return lambda xs: [(i, v) for i, v in enumerate(xs) if p(v)]
    if name == 'flat_map':
        return lambda xs: [(i, x) for i, v in enumerate(xs) for x in v]
    if name == 'scan':
        return _scan(fn(node[1], env), mkseed(node[2], env), node[3], fn(node[4], env) if node[4] else None)
    if name == 'count':
        return _scan(lambda a, i: a + 1, 0, node[1], None)
    if name == 'sum':
        return _scan(lambda a, i: a + i, 0.0, node[1], None)
    if name == 'mean':
        return _mean(node[1], plain)
    if name == 'min':
        return _scan(lambda a, i: i if (a is None or i < a) else a, None, node[1], None)
    if name == 'max':
        return _scan(lambda a, i: i if (a is None or i > a) else a, None, node[1], None)
    if name == 'variance':
        return _variance(node[1])
    if name == 'stddev':
        return _then_map(_variance(node[1]), math.sqrt)
    if name == 'fvariance':
        return _fvariance(node[1])
    if name == 'fstddev':
        return _then_map(_fvariance(node[1]), math.sqrt)
    if name == 'first':
        def first(xs):
            if not xs and plain:
                raise Discard('first on an empty plain observable')
            return [(0, xs[0])] if xs else []
        return first
    if name == 'last':
        def last(xs):
            if not xs and plain:
                raise Discard('last on an empty plain observable')
            return [(len(xs), xs[-1])] if xs else []
        return last
    if name == 'take':
        k = node[1]
        return lambda xs: _ident(xs)[:k]
    if name == 'to_list':
        return lambda xs: [(len(xs), list(xs))]
    if name == 'to_array':
        return lambda xs: [(len(xs), array(node[1], xs))]
    if name == 'duc':
        return _duc(fn(node[1], env) if node[1] else None)
    if name == 'distinct':
        return _distinct(fn(node[1], env) if node[1] else None)
    if name == 'clip':
        f = _clip(node[1], node[2])
        return lambda xs: [(i, f(v)) for i, v in enumerate(xs)]
    if name == 'fill_none':
        def fill(v):
            if isinstance(v, tuple) and hasattr(v, '_fields'):
                return v._replace(**{f: node[1] for f in v._fields if getattr(v, f) is None})
            return node[1] if v is None else v
        return lambda xs: [(i, fill(v)) for i, v in enumerate(xs)]
    if name == 'batch':
        return _batch(node[1])
    if name in ('identity', 'do_action', 'assert_', 'assert_1', 'progress', 'ignore', 'error_map', 'route'):
        return _ident
    if name == 'lag':
        k = node[1]
        return lambda xs: [(i, (xs[max(0, i - k)], xs[i])) for i in range(len(xs))]
    if name == 'pad_start':
        from .progs import pad_value
        k, val = node[1], pad_value(node[2])
        return lambda xs: ([(0, val if val is not None else xs[0])] * k if xs else []) + _ident(xs)
    if name == 'pad_end':
        from .progs import pad_value
        k, val = node[1], pad_value(node[2])
        return lambda xs: _ident(xs) + ([(len(xs), val if val is not None else xs[-1])] * k if xs else [])
    if name == 'start_with':
        from .progs import padding_of
        pad = list(padding_of(node))
        return lambda xs: ([(0, p) for p in pad] if xs else []) + _ident(xs)
    raise KeyError(name)


def _merge(parts):
    """parts: list (priority order) of [(trig, val)] -> stable merge by (trig, part, local order)"""
    tagged = [(t, i, j, v) for i, p in enumerate(parts) for j, (t, v) in enumerate(p)]
    tagged.sort(key=lambda x: (x[0], x[1], x[2]))
    return [(t, v) for t, _, _, v in tagged]


def roll_windows(n, w, s):
    """-> list of (start, end_exclusive, full)"""
    out = []
    k = 0
    while k < n:
        out.append((k, min(k + w, n), k + w <= n))
        k += s
    return out


def split_segments(xs, pred):
    segs = []
    for i, v in enumerate(xs):
        k = pred(v)
        if segs and not (segs[-1][0] != k):
            segs[-1][2].append(v)
        else:
            segs.append([k, i, [v]])
    return segs


def time_windows(xs, cfg, env=None):
    """-> list of dict(idx=[parent indices], items=[...], close=trigger) incl. empty windows.
    Direct transcription of the C07 statement."""
    tm = fn('id', env)      # 'dt' maps ints to datetimes monotonically and exactly: integer arithmetic decides the same
    active, inactive = cfg.get('active'), cfg.get('inactive')
    closing = fn(cfg['closing'], env) if cfg.get('closing') else None
    include = cfg.get('include', True)
    n = len(xs)
    wins = []
    cur = None
    ref = last = None
    prev_t = None
    for idx, x in enumerate(xs):
        t = tm(x)
        if prev_t is not None and t < prev_t:
            # C07 is stated for non-decreasing timestamp sequences: which window a late item belongs to - and so which item
            # determines a result - is not defined by any listed property
            raise Discard('decreasing timestamps inside a time_split key (outside the domain of C07)')
        prev_t = t
        if cur is None:
            cur = {'idx': [], 'items': [], 'close': n, 'open': idx}
            wins.append(cur)
            ref = last = t
        expired = (active is not None and t >= ref + active) or (inactive is not None and t >= last + inactive)
        if expired:
            cur['close'] = idx
            cur = {'idx': [idx], 'items': [x], 'close': n, 'open': idx}
            wins.append(cur)
            ref = last = t
        elif closing is not None and closing(x) is True:
            ref = last = t
            if include:
                cur['idx'].append(idx)
                cur['items'].append(x)
                cur['close'] = idx
                cur = {'idx': [], 'items': [], 'close': n, 'open': idx}
                wins.append(cur)
            else:
                cur['close'] = idx
                cur = {'idx': [idx], 'items': [x], 'close': n, 'open': idx}
                wins.append(cur)
        else:
            last = t
            cur['idx'].append(idx)
            cur['items'].append(x)
    return wins


def group_partition(xs, keyf):
    """linear scan with == (independent of hashing) -> list of (key, [indices], [values])"""
    gs = []
    for i, v in enumerate(xs):
        k = keyf(v)
        for g in gs:
            if g[0] == k:
                g[1].append(i)
                g[2].append(v)
                break
        else:
            gs.append((k, [i], [v]))
    return gs


def tee_join(outs, n, join):
    """outs: per branch [(trig, value)] -> joined [(trig, value)]"""
    nb = len(outs)
    latest = [None] * nb
    has = [False] * nb
    res = []
    by_trig = [dict() for _ in range(nb)]
    for b in range(nb):
        for t, v in outs[b]:
            by_trig[b].setdefault(t, []).append(v)
    for t in range(n + 1):
        for b in range(nb):
            for v in by_trig[b].get(t, ()):
                if join == 'merge':
                    res.append((t, v))
                elif join == 'zip':
                    latest[b] = v
                    has[b] = True
                    if all(has):
                        res.append((t, tuple(latest)))
                        has = [False] * nb
                        latest = [None] * nb
                else:
                    latest[b] = v
                    res.append((t, tuple(latest)))
    return res


def node_model(node, env=None, plain=False):
    name = node[0]
    if name not in CONTEXTS:
        return op_model(node, env, plain)
    if name == 'tee_map':
        branches = [pipe_model(b, env, plain) for b in node[2]]
        join = node[1]
        return lambda xs: tee_join([b(xs) for b in branches], len(xs), join)
    inner = pipe_model(node[-1], env, plain)
    if name == 'roll':
        w, s = node[1], node[2]

        def roll(xs):
            n = len(xs)
            parts = []
            for (a, b, full) in roll_windows(n, w, s):
                win = xs[a:b]
                close = a + w - 1 if full else n
                parts.append([((a + t) if t < len(win) else close, v) for t, v in inner(win)])
            return _merge(parts)
        return roll
    if name == 'split':
        pred = fn(node[1], env)

        def split(xs):
            n = len(xs)
            segs = split_segments(xs, pred)
            parts = []
            for si, (k, start, vals) in enumerate(segs):
                close = segs[si + 1][1] if si + 1 < len(segs) else n
                parts.append([((start + t) if t < len(vals) else close, v) for t, v in inner(vals)])
            return _merge(parts)
        return split
    if name == 'time_split':
        cfg = node[1]

        def tsplit(xs):
            parts = []
            for w in time_windows(xs, cfg, env):
                parts.append([(w['idx'][t] if t < len(w['items']) else w['close'], v) for t, v in inner(w['items'])])
            return _merge(parts)
        return tsplit
    if name == 'group_by':
        keyf = fn(node[1], env)

        def group(xs):
            n = len(xs)
            return _merge([[(idx[t] if t < len(vals) else n, v) for t, v in inner(vals)]
                           for _, idx, vals in group_partition(xs, keyf)])
        return group
    raise KeyError(name)


def pipe_model(prog, env=None, plain=False):
    ops = [node_model(n, env, plain) for n in prog]

    def op(xs):
        n = len(xs)
        trig = list(range(n))
        vals = list(xs)
        for o in ops:
            out = o(vals)
            m = len(vals)
            trig = [(trig[t] if t < m else n) for t, _ in out]
            vals = [v for _, v in out]
        return list(zip(trig, vals))
    return op


def run(prog, items, env=None, plain=False):
    """-> [(trigger, value)] for the top-level key; trigger len(items) = stream completion"""
    return pipe_model(prog, env, plain)(list(items))

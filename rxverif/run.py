"""Runner: python -m rxverif.run <ID> [--tier quick|thorough]

quick    : one process, capped by case count and a wall-clock budget.
thorough : N seed shards as subprocesses (never multiprocessing.Pool), merged here.

Exit 0  held on everything explored (KNOWN-FINDING lines may be printed)
Exit 1  VIOLATION property=<id> replay=<path>
Exit 2  INCONCLUSIVE (watchdog, monitor never reached, wrong tree) - never a violation
"""
import argparse
import gc
import importlib
import json
import os
import random
import signal
import subprocess
import sys
import time
import traceback
from collections import Counter

from . import common
from .common import Inconclusive, say

NSHARDS = int(os.environ.get('VERIF_SHARDS', '16'))
CASE_WATCHDOG_S = 60
MAX_SAMPLES = 6
SHRINK_BUDGET_S = 12


def load_check(pid):
    mod = importlib.import_module('rxverif.checks.' + pid.lower())
    return mod.CHECK


def load_findings(pid):
    try:
        with open(common.FINDINGS_FILE) as f:
            data = json.load(f)
    except FileNotFoundError:
        return []
    return [e for e in data.get('findings', []) if e.get('property') == pid]


_EARLY_COV = None


class _CaseTimeout(BaseException):
    """raised by SIGALRM; a BaseException so that the `except Exception` blocks inside rxsci operators (which turn
    exceptions of user functions into mux errors) cannot swallow it"""


def _alarm(signum, frame):
    raise _CaseTimeout()


def _coverage_start():
    if os.environ.get('VERIF_NO_COVERAGE'):
        return None
    try:
        os.environ.setdefault('COVERAGE_CORE', 'sysmon')
        import coverage
        cov = coverage.Coverage(data_file=None, config_file=False,
                                include=[os.path.join(common.REPO, 'rxsci', '*')])
        cov.start()
        return cov
    except Exception:           # coverage is reporting only, never a verdict
        return None


def _coverage_report(cov, anchors):
    if cov is None:
        return None
    try:
        cov.stop()
        rep = {}
        for rel in anchors:
            path = os.path.join(common.REPO, rel)
            if not os.path.isfile(path):
                continue
            try:
                _, executable, _, missing, _ = cov.analysis2(path)
            except Exception:
                continue
            rep[rel] = {'executable_lines': len(executable),
                        'executed_lines': len(executable) - len(missing),
                        'lines_never_reached': list(missing)[:60]}
        return rep
    except Exception:
        return None


def _limit_memory():
    try:
        import resource
        cap = int(os.environ.get('VERIF_MEM_CAP_GB', '6')) << 30
        soft, hard = resource.getrlimit(resource.RLIMIT_AS)
        if hard == resource.RLIM_INFINITY or hard > cap:
            resource.setrlimit(resource.RLIMIT_AS, (cap, hard))
    except Exception:
        pass


def run_shard(check, tier, seed, shard, nshards, budget_s, with_coverage):
    """Generate and evaluate cases; returns a JSON-able result dict."""
    common.bootstrap()
    common.mute_stdout()
    known = {e['mechanism']: e for e in load_findings(check.ID) if e.get('status') == 'known'}
    rng = random.Random('%d:%s:%d' % (seed, check.ID, shard))
    res = {
        'evaluations': 0, 'distinct': set(), 'tags': Counter(), 'observed': Counter(),
        'discarded': Counter(), 'samples': [], 'known': Counter(), 'known_witness': {},
        'violations': [], 'truncated': False, 'exhausted_generator': False,
        'inconclusive': None, 'coverage': None, 'watchdog': [],
    }
    res.update({'tag_pairs': Counter(), 'tag_solo': Counter(), 'pair_cases': 0})
    required = set(check.REQUIRED_TAGS)
    _limit_memory()
    cov = _EARLY_COV if with_coverage else None
    t0 = time.monotonic()
    signal.signal(signal.SIGALRM, _alarm)
    gen = check.generate(rng, tier, shard, nshards)
    try:
        while True:
            if time.monotonic() - t0 > budget_s:
                res['truncated'] = True
                break
            try:
                case = next(gen)
            except StopIteration:
                res['exhausted_generator'] = True
                break
            signal.alarm(int(case.get('watchdog_s', CASE_WATCHDOG_S)) if isinstance(case, dict) else CASE_WATCHDOG_S)
            try:
                out = check.evaluate(case)
            except _CaseTimeout:
                # a pathological generated case (e.g. aliasing of a growing accumulator that makes every snapshot
                # quadratic): never a violation.  It is set aside and counted; the run turns inconclusive when
                # more than 1 in 1000 cases needed the watchdog.
                res['watchdog'].append(json.dumps(common.jsonable(case))[:400])
                res['discarded']['case watchdog (%ds) fired' % CASE_WATCHDOG_S] += 1
                res['evaluations'] += 1
                gc.collect()
                if len(res['watchdog']) > max(3, res['evaluations'] // 1000):
                    res['inconclusive'] = 'case watchdog fired %d times in %d cases' % (len(res['watchdog']), res['evaluations'])
                    break
                continue
            except Inconclusive:
                raise
            except Exception as e:      # noqa: BLE001
                # An exception escaping from the code under test is an observation; one
                # raised by the harness itself is a harness bug (inconclusive).
                tb = traceback.extract_tb(e.__traceback__)
                inner = tb[-1].filename if tb else ''
                if isinstance(e, common.DocumentedCallRejected):
                    out = common.Outcome()
                    out.nontrivial = True
                    out.fail('documented-call-convention-rejected', error=str(e))
                elif inner.startswith(common.REPO + os.sep):
                    out = common.Outcome()
                    out.nontrivial = True
                    out.fail('exception-escaped-from-rxsci', error=repr(e),
                             where='%s:%s' % (os.path.relpath(inner, common.REPO), tb[-1].lineno))
                else:
                    res['inconclusive'] = 'harness error: %s' % ''.join(
                        traceback.format_exception(type(e), e, e.__traceback__))[-1500:]
                    break
            finally:
                signal.alarm(0)
            res['evaluations'] += 1
            for t in out.tags:
                res['tags'][t] += 1
            if res['evaluations'] <= 200000:
                # which REQUIRED classes met in one case (evidence: classes that are both frequent and never met)
                req = sorted(set(out.tags) & required)
                res['pair_cases'] += 1
                for a_ in range(len(req)):
                    res['tag_solo'][req[a_]] += 1
                    for b_ in range(a_ + 1, len(req)):
                        res['tag_pairs'][req[a_] + ' || ' + req[b_]] += 1
            res['observed'].update(out.observed)
            if out.discarded:
                res['discarded'][out.discarded] += 1
                continue
            if out.nontrivial:
                h = common.case_hash(case)
                if h not in res['distinct'] and len(res['samples']) < MAX_SAMPLES \
                        and (len(res['samples']) < 2 or rng.random() < 0.02) \
                        and len(json.dumps(common.jsonable(case), default=repr)) < 6000:        # keep the evidence file readable
                    res['samples'].append(common.jsonable(case))
                res['distinct'].add(h)
            unlisted = []
            for f in out.failures:
                if f.get('mech') in known:
                    res['known'][f['mech']] += 1
                    res['known_witness'].setdefault(f['mech'], {'case': common.jsonable(case), 'failure': f})
                else:
                    unlisted.append(f)
            if unlisted:
                signal.alarm(CASE_WATCHDOG_S * 3)
                try:
                    small, fails = shrink(check, case, unlisted, known)
                except _CaseTimeout:
                    small, fails = case, unlisted
                finally:
                    signal.alarm(0)
                res['violations'].append({'case': common.jsonable(small), 'failures': fails,
                                          'original_case': common.jsonable(case)})
                break
    finally:
        signal.alarm(0)
    res['coverage'] = _coverage_report(cov, check.ANCHORS)
    res['wall_s'] = time.monotonic() - t0
    res['extra'] = check.extra_evidence()
    if not res['samples'] and res['evaluations']:
        pass
    return res


def shrink(check, case, failures, known, max_evals=300):
    """Greedy: accept a smaller case while it still shows an unlisted failure of the
    same kind as the first one."""
    kind = failures[0]['kind']
    evals = 0
    progress = True
    t_end = time.monotonic() + SHRINK_BUDGET_S       # large (scale) cases are expensive to re-run: shrinking is best effort
    while progress and evals < max_evals and time.monotonic() < t_end:
        progress = False
        try:
            candidates = list(check.shrink(case)) if not (isinstance(case, dict) and case.get('watchdog_s')) else []
        except Exception:           # noqa: BLE001 - shrinking is best effort; the unshrunk witness stands
            candidates = []
        for cand in candidates:
            evals += 1
            if evals > max_evals or time.monotonic() > t_end:
                break
            try:
                out = check.evaluate(cand)
            except _CaseTimeout:
                raise
            except Exception:
                continue
            if out.discarded:
                continue
            fs = [f for f in out.failures if f.get('mech') not in known and f['kind'] == kind]
            if fs:
                case, failures, progress = cand, fs, True
                break
    return case, failures


def merge(results):
    m = {
        'evaluations': 0, 'distinct': set(), 'tags': Counter(), 'observed': Counter(),
        'discarded': Counter(), 'samples': [], 'known': Counter(), 'known_witness': {},
        'violations': [], 'truncated': False, 'exhausted_generator': True,
        'inconclusive': None, 'coverage': None, 'wall_s': 0.0, 'extra': {}, 'watchdog': [],
        'tag_pairs': Counter(), 'tag_solo': Counter(), 'pair_cases': 0,
    }
    for r in results:
        m['evaluations'] += r['evaluations']
        m['tag_pairs'].update(r.get('tag_pairs') or {})
        m['tag_solo'].update(r.get('tag_solo') or {})
        m['pair_cases'] += r.get('pair_cases', 0)
        m['distinct'] |= set(r['distinct'])
        m['tags'].update(r['tags'])
        m['observed'].update(r['observed'])
        m['discarded'].update(r['discarded'])
        for s in r['samples']:
            if len(m['samples']) < MAX_SAMPLES:
                m['samples'].append(s)
        m['known'].update(r['known'])
        for k, v in r['known_witness'].items():
            m['known_witness'].setdefault(k, v)
        m['violations'].extend(r['violations'])
        m['watchdog'].extend(r.get('watchdog', []))
        m['truncated'] = m['truncated'] or r['truncated']
        m['exhausted_generator'] = m['exhausted_generator'] and r['exhausted_generator']
        m['inconclusive'] = m['inconclusive'] or r['inconclusive']
        m['coverage'] = m['coverage'] or r.get('coverage')
        m['wall_s'] = max(m['wall_s'], r.get('wall_s', 0.0))
        for k, v in (r.get('extra') or {}).items():
            if k.startswith('max_') and isinstance(v, (int, float)):
                m['extra'][k] = max(m['extra'].get(k, v), v)
            elif isinstance(v, (int, float)) and isinstance(m['extra'].get(k, 0), (int, float)):
                m['extra'][k] = m['extra'].get(k, 0) + v
            else:
                m['extra'].setdefault(k, v)
    return m


def dump_result(res, path):
    r = dict(res)
    r['distinct'] = sorted(r['distinct'])
    for k in ('tags', 'observed', 'discarded', 'known', 'tag_pairs', 'tag_solo'):
        r[k] = dict(r.get(k) or {})
    os.makedirs(os.path.dirname(path), exist_ok=True)
    with open(path, 'w') as f:
        json.dump(r, f)


def load_result(path):
    with open(path) as f:
        r = json.load(f)
    r['distinct'] = set(r['distinct'])
    for k in ('tags', 'observed', 'discarded', 'known', 'tag_pairs', 'tag_solo'):
        r[k] = Counter(r.get(k) or {})
    return r


def write_evidence(check, tier, seed, res, wall, verdict):
    cov = {
        'evaluations': res['evaluations'],
        'distinct_nontrivial': len(res['distinct']),
        'rule': check.RULE,
        'samples': res['samples'] or [],
        'exhaustive': bool(check.EXHAUSTIVE.get(tier) and res['exhausted_generator']
                           and not res['truncated']),
        'verdict': verdict,
        'histogram': dict(sorted(res['tags'].items(), key=lambda kv: -kv[1])[:120]),
        'observed_by_monitors': dict(res['observed']),
        'discarded_by_precondition': dict(res['discarded']),
        'known_findings_observed': dict(res['known']),
        'stopped_by_wall_clock_budget': res['truncated'],
        'generator_ran_to_completion': res['exhausted_generator'],
        'anchor_line_coverage': res['coverage'],
        'cases_set_aside_by_the_watchdog': res.get('watchdog', [])[:5],
    }
    # required classes that are each frequent but were never seen in the SAME case: exclusive by construction (two modes, two
    # codecs) - or a combination no run drives (DESIGN.md section 10, round l: the generator coupling audit)
    n_ = res.get('pair_cases') or 0
    solo, pairs = res.get('tag_solo') or {}, res.get('tag_pairs') or {}
    never = []
    names = sorted(solo)
    for i_, a_ in enumerate(names):
        for b_ in names[i_ + 1:]:
            if n_ and solo[a_] * solo[b_] / n_ >= 25 and not pairs.get(a_ + ' || ' + b_):
                never.append([a_, b_, solo[a_], solo[b_]])
    never.sort(key=lambda e: -e[2] * e[3])
    cov['required_classes_frequent_but_never_in_the_same_case'] = {'cases_examined': n_, 'pairs': never[:60], 'pairs_total': len(never)}
    cov.update(res.get('extra') or {})
    ev = {
        'property_id': check.ID, 'tier': tier, 'seed': seed, 'level': check.LEVEL,
        'coverage': cov, 'assumptions': list(check.ASSUMPTIONS),
        'wall_s': round(wall, 3), 'violations': len(res['violations']),
    }
    os.makedirs(common.EVIDENCE_DIR, exist_ok=True)
    path = os.path.join(common.EVIDENCE_DIR, check.ID + '.json')
    tmp = path + '.tmp'
    with open(tmp, 'w') as f:
        json.dump(ev, f, indent=1, default=repr)
    os.replace(tmp, path)
    return path


def write_replay(check, tier, seed, v):
    os.makedirs(common.REPLAY_DIR, exist_ok=True)
    h = common.case_hash(v['case'])
    path = os.path.join(common.REPLAY_DIR, '%s-%016x.json' % (check.ID, h))
    with open(path, 'w') as f:
        json.dump({'property': check.ID, 'tier': tier, 'seed': seed, 'case': v['case'],
                   'failures': v['failures'], 'original_case': v.get('original_case')},
                  f, indent=1, default=repr)
    return path


def main(argv=None):
    ap = argparse.ArgumentParser()
    ap.add_argument('pid')
    ap.add_argument('--tier', default=os.environ.get('VERIF_TIER') or 'quick', choices=['quick', 'thorough'])
    ap.add_argument('--shard', default=None, help='internal: i/n')
    ap.add_argument('--out', default=None, help='internal: shard result file')
    ap.add_argument('--budget', type=float, default=None)
    ap.add_argument('--shards', type=int, default=None)
    args = ap.parse_args(argv)

    if os.environ.get('PYTHONHASHSEED') != '0':
        env = dict(os.environ, PYTHONHASHSEED='0')
        os.execve(sys.executable, [sys.executable, '-m', 'rxverif.run'] + (argv or sys.argv[1:]), env)

    pid = args.pid.upper()
    seed = int(os.environ.get('VERIF_SEED') or 0)
    tier = args.tier
    t0 = time.monotonic()
    # line coverage of the anchor files is measured from before rxsci is imported (so module-level
    # lines count) in the single quick process and in shard 0 of a thorough run; reporting only
    global _EARLY_COV
    if (args.shard is None and tier == 'quick') or (args.shard is not None and args.shard.startswith('0/')):
        _EARLY_COV = _coverage_start()
    try:
        common.bootstrap()
        check = load_check(pid)
    except Inconclusive as e:
        say('INCONCLUSIVE property=%s %s' % (pid, e))
        return 2
    budget = args.budget or float(os.environ.get('VERIF_BUDGET_S') or check.BUDGET[tier])

    if args.shard is not None:
        i, n = (int(x) for x in args.shard.split('/'))
        res = run_shard(check, tier, seed, i, n, budget, with_coverage=(i == 0))
        dump_result(res, args.out)
        return 0

    if tier == 'quick':
        res = run_shard(check, tier, seed, 0, 1, budget, with_coverage=True)
        if not res['violations'] and not res['inconclusive'] and not os.environ.get('VERIF_NO_OPTIMIZED_RUN'):
            # the same workload for a few seconds under `python -O` (asserts stripped, __debug__ False): code whose behaviour
            # rests on an assert statement with a side effect only shows there
            import tempfile
            fd, tmp = tempfile.mkstemp(prefix='opt-', suffix='.json', dir=common.WORK if os.path.isdir(common.WORK) else None)
            os.close(fd)
            try:
                cmd = [sys.executable, '-O', '-m', 'rxverif.run', pid, '--tier', tier, '--shard', '0/1', '--out', tmp,
                       '--budget', str(max(3.0, min(5.0, budget / 15)))]
                r = subprocess.run(cmd, cwd=common.VERIF, capture_output=True, text=True, timeout=budget + 120,
                                   env=dict(os.environ, PYTHONHASHSEED='0', VERIF_NO_COVERAGE='1'))
                if r.returncode == 0 and os.path.getsize(tmp) > 0:
                    child = load_result(tmp)
                    res['observed']['evaluations_under_python_-O'] += child['evaluations']
                    for v in child['violations']:
                        for f in v['failures']:
                            f['detail']['interpreter'] = 'python -O (asserts stripped)'
                        res['violations'].append(v)
                    if child['inconclusive']:
                        res['observed']['python_-O_run_inconclusive'] += 1
            except Exception:       # noqa: BLE001 - the optimized run is an addition: its own failure is not a verdict
                res['observed']['python_-O_run_failed_to_start'] += 1
            finally:
                try:
                    os.unlink(tmp)
                except OSError:
                    pass
    else:
        n = args.shards or NSHARDS
        wdir = os.path.join(common.WORK, '%s-%d-%d' % (pid, seed, os.getpid()))
        os.makedirs(wdir, exist_ok=True)
        procs = []
        for i in range(n):
            out = os.path.join(wdir, 'shard%d.json' % i)
            cmd = [sys.executable] + (['-O'] if i == n - 1 else []) + ['-m', 'rxverif.run', pid, '--tier', tier,
                   '--shard', '%d/%d' % (i, n), '--out', out, '--budget', str(budget)]      # (the last shard runs under python -O)
            log = open(os.path.join(wdir, 'shard%d.log' % i), 'w')
            procs.append((subprocess.Popen(cmd, cwd=common.VERIF, stdout=log, stderr=subprocess.STDOUT,
                                           env=dict(os.environ, PYTHONHASHSEED='0')), out, log))
        results, problems = [], []
        deadline = time.monotonic() + budget * 3 + 300
        for p, out, log in procs:
            try:
                rc = p.wait(timeout=max(1, deadline - time.monotonic()))
            except subprocess.TimeoutExpired:
                p.kill()
                problems.append('shard watchdog fired')
                continue
            finally:
                log.close()
            if rc != 0 or not os.path.exists(out):
                tail = open(log.name).read()[-600:]
                problems.append('shard exited %s: %s' % (rc, tail))
                continue
            results.append(load_result(out))
        res = merge(results) if results else None
        import shutil
        shutil.rmtree(wdir, ignore_errors=True)
        if res is None:
            say('INCONCLUSIVE property=%s no shard finished: %s' % (pid, problems[:2]))
            return 2
        if problems:
            res['inconclusive'] = res['inconclusive'] or ('; '.join(problems))[:500]

    wall = time.monotonic() - t0
    # verdict ---------------------------------------------------------------
    missing_tags = [t for t in check.REQUIRED_TAGS if res['tags'].get(t, 0) == 0]
    missing_obs = [t for t in check.REQUIRED_OBSERVED if res['observed'].get(t, 0) == 0]
    verdict = 'held'
    if res['violations']:
        verdict = 'violated'
    elif res['inconclusive']:
        verdict = 'inconclusive: ' + res['inconclusive']
    elif missing_tags or missing_obs:
        verdict = 'inconclusive: never exercised %s' % (missing_tags + missing_obs)
    elif len(res['distinct']) < 2:
        verdict = 'inconclusive: fewer than two distinct non-trivial cases'
    path = write_evidence(check, tier, seed, res, wall, verdict)

    findings = load_findings(pid)
    for e in findings:
        if e.get('status') == 'known':
            say('KNOWN-FINDING: property=%s %s [mechanism=%s, observed %d times in this run]' % (
                pid, e.get('what', ''), e['mechanism'], res['known'].get(e['mechanism'], 0)))
    say('%s %s seed=%d: %d evaluations, %d distinct non-trivial, %d discarded, %.1fs -> %s (evidence %s)' % (
        pid, tier, seed, res['evaluations'], len(res['distinct']), sum(res['discarded'].values()),
        wall, verdict, os.path.relpath(path, common.VERIF)))
    if res['violations']:
        for v in res['violations'][:5]:
            rp = write_replay(check, tier, seed, v)
            say('VIOLATION property=%s replay=%s' % (pid, rp))
            f0 = v['failures'][0]
            say('  kind=%s detail=%s' % (f0['kind'], json.dumps(f0['detail'], default=repr)[:1200]))
            say('  case=%s' % json.dumps(v['case'], default=repr)[:1200])
        return 1
    if verdict != 'held':
        say('INCONCLUSIVE property=%s %s' % (pid, verdict))
        return 2
    return 0


if __name__ == '__main__':
    try:
        sys.exit(main())
    except Inconclusive as e:
        say('INCONCLUSIVE %s' % e)
        sys.exit(2)
    except Exception:
        traceback.print_exc()
        say('INCONCLUSIVE harness error (see traceback)')
        sys.exit(2)

"""Type-directed random program and input generators (part of E2)."""
from .progs import OPS, CONTEXTS

REDUCIBLE = ('count', 'sum', 'mean', 'min', 'max', 'variance', 'stddev', 'fvariance', 'fstddev')


class GenOpts:
    def __init__(self, **kw):
        self.dual_only = False          # only operators documented for both modes (+ tee_map)
        self.contexts = ('group_by', 'roll', 'split', 'time_split', 'tee_map')
        self.max_depth = 2
        self.model_safe = False         # keep programs inside what the reference model decides
        self.truthy_predicates = False  # filter predicates returning truthy non-bool values
        self.allow_progress = True
        self.allow_empty_sensitive = True   # first / last / mean(reduce): may hit the empty-group precondition
        self.ctx_weight = 3
        self.tee_weight = 2
        self.no_streaming_mutation = False  # oracle works on snapshots: no streaming scan that mutates its accumulator
        self.scale = False              # draw sizes beyond CPython's small-int cache / typical block sizes (257+, 1000+)
        self.only_ops = None            # restrict the vocabulary (set of op names)
        self.exclude_ops = ()
        self.__dict__.update(kw)


class State:
    """generation-time facts that constrain what may follow"""

    def __init__(self, in_tee=False, after_take=False, tainted=False, no_multislot=False):
        self.in_tee = in_tee
        self.after_take = after_take      # a take/first occurred earlier in this tee branch (transitively)
        self.tainted = tainted            # a multi-slot roll occurred: order below it is unspecified
        self.no_multislot = no_multislot


def _k(rng, lo=2, hi=4):
    return rng.randint(lo, hi)


def candidates(rng, t, opts, st, depth):
    """-> list of (weight, node-or-marker)"""
    c = []
    A = c.append
    stateless_only = opts.model_safe and st.tainted
    no_completion = st.in_tee and st.after_take

    def red():
        return False if no_completion else rng.random() < 0.4

    # ---- stateless, per item
    if t == 'i':
        A((3, ['map', 'add:%d' % _k(rng, 1, 4)]))
        A((2, ['map', 'mod:%d' % _k(rng, 2, 5)]))
        A((1, ['map', 'mul:%d' % _k(rng, 2, 3)]))
        A((1, ['map', 'div:%d' % _k(rng, 2, 3)]))
        A((1, ['map', 'pair']))
        A((1, ['map', 'pairmod:%d' % _k(rng)]))
        A((1, ['map', 'rep:%d' % _k(rng)]))
        A((1, ['map', 'upto:%d' % _k(rng)]))
        A((1, ['map', 'opt:%d' % _k(rng)]))
        A((1, ['map', 'nt:%d' % _k(rng)]))
        A((1, ['map', 'sub:%d' % rng.randint(1, 9)]))
        A((0.7, ['map', 'kmix:%d' % _k(rng)]))
        A((0.7, ['map', 'tonp']))
        A((0.7, ['filter', 'npgt:%d' % rng.randint(1, 9)]))
        A((1, ['map', 'half']))
        A((2, ['filter', 'modne:%d:0' % _k(rng)]))
        A((2, ['filter', 'gt:%d' % rng.randint(1, 12)]))
        A((1, ['filter', 'even']))
        A((1, ['filter', 'lt:%d' % rng.randint(3, 20)]))
        if opts.truthy_predicates:
            A((3, ['filter', 'modtruthy:%d' % _k(rng)]))
        A((1, ['clip', rng.randint(0, 4), rng.randint(5, 12)]))
        A((1, ['clip', None, rng.randint(5, 12)]))
        A((0.5, ['clip', rng.randint(0, 6), None]))
        A((0.3, ['clip', None, None]))
        A((1, ['assert_', 'gt:-1000000000']))      # always holds: generated values stay far above (a failing assert stops the stream)
    elif t == 'f':
        A((3, ['map', 'trunc']))
        A((2, ['map', 'scale10']))
        A((1, ['clip', 1.5, 9.25]))
    elif t == 't':
        A((3, ['starmap', 'add2']))
        A((1, ['starmap', 'mul2']))
        A((2, ['map', 't0']))
        A((2, ['map', 't1']))
        A((1, ['map', 'tsum']))
    elif t == 'l':
        A((4, ['flat_map']))
        A((2, ['map', 'len']))
        A((1, ['map', 'lsum']))
    elif t == 'o':
        A((4, ['fill_none', rng.randint(5, 9)]))
        A((2, ['map', 'isnone']))
    elif t == 'p':
        A((4, ['map', 'frompy']))
    elif t == 'n':
        A((4, ['fill_none', rng.randint(5, 9)]))
        A((3, ['map', 'ntsum']))
    if t == 'x':
        A((6, ['map', 'digest']))
        A((1, ['filter', 'dgt:%d' % rng.randint(10, 60)]))
    else:
        A((1, ['map', 'digest']))
    A((1, ['identity']))
    A((1, ['do_action']))
    A((0.5, ['assert_', 'true']))

    if not stateless_only:
        # ---- stateful, both modes
        if t == 'i':
            A((2, ['scan', 'acc_add', 'zero', red(), None]))
            A((1, ['scan', 'acc_addsq', 'zero', red(), None]))
            A((1, ['scan', 'acc_max', 'neg1', red(), None]))
            A((1, ['scan', 'acc_addf', 'zerof', red(), None]))
            A((1, ['scan', 'acc_pair', 'pair00', red(), None]))
            if not no_completion:
                A((1, ['scan', 'acc_add', 'zero', rng.random() < 0.5, 'term_neg']))
                A((1, ['scan', 'acc_add', 'one', rng.random() < 0.5, 'term_addk:%d' % _k(rng)]))
                A((1, ['to_array', 'q']))
        if t == 'f':
            A((2, ['scan', 'acc_addf', 'zerof', red(), None]))
        if t in 'if':
            for name in REDUCIBLE[1:]:
                node = [name, red()]
                if name == 'mean' and node[1] and not opts.allow_empty_sensitive:
                    node[1] = False
                A((1, node))
        A((1, ['scan', 'acc_append_new', 'list', red(), None]))
        # a streaming scan that mutates its accumulator emits the SAME object every time: a buffering
        # operator downstream legitimately sees its later mutations.  The batch model cannot express
        # that aliasing, so model-based checks only use the reducing form (C09 covers the streaming one).
        snap_only = opts.model_safe or opts.no_streaming_mutation
        mut_red = (lambda: True) if snap_only else red
        if not (snap_only and no_completion):
            A((1, ['scan', 'acc_append_mut', 'list_factory', mut_red(), None]))
            A((1, ['scan', 'acc_append_mut', 'list', mut_red(), None]))
            A((1, ['scan', 'acc_nested_mut', 'nested', mut_red(), None]))
            A((0.7, ['scan', 'acc_box_mut', 'box', mut_red(), None]))
            A((0.7, ['scan', 'acc_tbox_mut', 'tbox', mut_red(), None]))
            A((0.7, ['scan', 'acc_ndict_mut', 'ndict', mut_red(), None]))
            A((0.7, ['scan', 'acc_nlist_mut', 'nlist', mut_red(), None]))
            A((0.7, ['scan', 'acc_ddict_mut', 'ddict', mut_red(), None]))
        A((1, ['scan', 'acc_digest', 'zero', red(), None]))
        A((0.8, ['scan', 'acc_phase', 'phase', red(), None]))
        if t == 'i':
            A((0.8, ['scan', 'acc_npvec', 'npvec', red(), None]))
        A((0.8, ['scan', 'acc_append_any', rng.choice(['list_partial', 'list_callable_object', 'list_lru']), red(), None]))
        A((0.8, ['scan', 'acc_sentinel', 'sentinel_factory', red(), None]))
        if not no_completion:
            A((1, ['scan', 'acc_append_new', 'list', rng.random() < 0.5, 'term_mark']))
            A((0.8, ['scan', 'acc_append_mut', rng.choice(['list', 'list_factory']), True, 'term_mark_mut']))
        A((2, ['count', red()]))
        A((2, ['take', rng.choice([0, 1, 1, 2, 3, 5]) if not opts.scale else rng.choice([257, 300, 1000])]))
        if opts.allow_empty_sensitive:
            A((2, ['first']))
        A((2, ['duc', None]))
        if t == 'i':
            A((1, ['duc', 'mod:%d' % _k(rng)]))
            A((0.7, ['duc', 'modnp:%d' % _k(rng)]))
            A((0.7, ['duc', 'kapprox']))
        A((1, ['assert_1', 'true2']))
        if opts.allow_progress:
            A((1, ['progress', rng.randint(1, 3), rng.random() < 0.3]))
        if not no_completion:
            A((2, ['to_list']))
            A((2, ['batch', rng.randint(1, 4) if not opts.scale else rng.choice([257, 300, 1024])]))
            if opts.allow_empty_sensitive:
                A((2, ['last']))
        if not opts.dual_only:
            if t in 'iotfp':
                A((2, ['distinct', None]))
            if t == 'i':
                A((1, ['distinct', 'mod:%d' % _k(rng)]))
                A((0.7, ['distinct', 'modnp:%d' % _k(rng)]))
            A((2, ['lag', rng.randint(1, 3) if not opts.scale else rng.choice([257, 300])]))
            A((1, ['pad_start', rng.randint(0, 2), rng.choice([None, 77]) if t == 'i' else None]))
            if t == 'i':
                A((1, ['start_with', [50, 51][:rng.randint(1, 2)]]))
            if not no_completion:
                A((1, ['pad_end', rng.randint(0, 2), rng.choice([None, 88]) if t == 'i' else None]))
    # ---- contexts
    if depth > 0 and not stateless_only:
        for cx in opts.contexts:
            if cx == 'tee_map':
                A((opts.tee_weight, 'TEE'))
            elif not opts.dual_only:
                if cx == 'time_split' and t != 'i':
                    continue
                if no_completion:
                    continue        # inner lifetimes emit at their completion
                A((opts.ctx_weight / 2, 'CTX:' + cx))
    out = []
    for w, n in c:
        name = n if isinstance(n, str) else n[0]
        if opts.only_ops is not None and not isinstance(n, str) and name not in opts.only_ops:
            continue
        if not isinstance(n, str) and name in opts.exclude_ops:
            continue
        out.append((w, n))
    return out


def weighted(rng, cands):
    tot = sum(w for w, _ in cands)
    x = rng.random() * tot
    for w, n in cands:
        x -= w
        if x <= 0:
            return n
    return cands[-1][1]


def gen_context(rng, cx, t, opts, st, depth):
    from .progs import pipeline_type
    inner_st = State(in_tee=st.in_tee, after_take=st.after_take, tainted=False, no_multislot=st.no_multislot)
    inner, _ = gen_pipeline(rng, t, rng.randint(1, 3), opts, inner_st, depth - 1)
    if cx == 'group_by' and opts.scale and t == 'i':
        node = ['group_by', rng.choice(['mod:300', 'kt:300', 'mod:1000']), inner]
    elif cx == 'group_by':
        key = rng.choice(['mod:%d', 'kt:%d', 'ks:%d', 'kbig:%d', 'kf:%d', 'kmix:%d', 'kneg:%d', 'kmers:%d', 'knp:%d', 'kcent:%d']) % _k(rng) if t == 'i' else 'kdig:%d' % _k(rng)
        node = ['group_by', key, inner]
    elif cx == 'roll':
        w, s = rng.randint(1, 4), rng.randint(1, 4)
        if opts.scale:
            w, s = rng.choice([(300, 100), (257, 256), (260, 130), (400, 399), (300, 300), (100, 400)])
        if opts.model_safe and (st.no_multislot or st.in_tee) and w > s:
            s = w if (rng.random() < 0.5 or w >= 4) else rng.randint(w, 4)
        node = ['roll', w, s, inner]
        if w > s:
            st.tainted = True
    elif cx == 'split':
        pred = rng.choice(['div:%d', 'divt:%d', 'divs:%d', 'divbig:%d', 'divpar:%d', 'divnp:%d', 'divbool:%d', 'divcent:%d', 'divnone:%d', 'divnan:%d', 'divobj:%d', 'divtag:%d', 'divcls:%d']) % _k(rng) if t == 'i' else 'digpar:%d' % _k(rng, 10, 40)
        node = ['split', pred, inner]
    else:
        cfg = {'active': rng.choice([None, 3, 5, 8]), 'inactive': rng.choice([None, 2, 3, 4]),
               'closing': rng.choice([None, None, 'modeq:7:0', 'modeq:5:1']), 'include': rng.random() < 0.5}
        tm = rng.choice(['id', 'id', 'dt', 'dtz'])
        if cfg['active'] is None and cfg['inactive'] is None and cfg['closing'] and rng.random() < 0.5:
            tm = 'tnone'
        if tm != 'id':
            cfg['time'] = tm        # the same instants as naive / timezone-aware datetimes (timeouts become timedeltas)
        node = ['time_split', cfg, inner]
    if inner_st.tainted:
        st.tainted = True
    st.after_take = st.after_take or inner_st.after_take
    return node


def gen_pipeline(rng, t, length, opts, st=None, depth=None):
    """-> (program, output type)"""
    from .progs import out_type
    st = st or State()
    depth = opts.max_depth if depth is None else depth
    prog = []
    for _ in range(length):
        cands = candidates(rng, t, opts, st, depth)
        n = weighted(rng, cands)
        if n == 'TEE':
            nb = rng.choice([2, 2, 3, 4])
            if rng.random() < 0.06:
                nb = rng.choice([8, 9, 10, 17])       # many features in one tee: per-branch flags packed into small fields
            join = rng.choice(['zip', 'merge', 'combine_latest'])
            branches = []
            any_take = False
            for _b in range(nb):
                bst = State(in_tee=True, after_take=st.after_take if st.in_tee else False, tainted=False,
                            no_multislot=True)
                b, _ = gen_pipeline(rng, t, rng.randint(1, 2), opts, bst, depth - 1)
                branches.append(b)
                any_take = any_take or bst.after_take
                if bst.tainted:
                    st.tainted = True
            n = ['tee_map', join, branches]
            if st.in_tee and any_take:
                st.after_take = True
        elif isinstance(n, str) and n.startswith('CTX:'):
            n = gen_context(rng, n[4:], t, opts, st, depth)
        else:
            if n[0] in ('take', 'first'):
                st.after_take = True
        prog.append(n)
        t = out_type(n, t)
    return prog, t


# ---------------------------------------------------------------------------
# inputs

def gen_items(rng, n=None, hi=12, sorted_=False):
    n = rng.choice([0, 1, 2, 3, 5, 8, 13, 20, 30]) if n is None else n
    xs = [rng.randint(0, hi) for _ in range(n)]
    return sorted(xs) if sorted_ else xs


INTERLEAVINGS = ('round_robin', 'blocks', 'reversed_blocks', 'random', 'singletons_first')


def interleave_keys(rng, per_key, shape):
    """per_key: list of lists -> list of (key index, item) in the chosen interleaving"""
    seqs = [list(s) for s in per_key]
    out = []
    if shape == 'blocks':
        for k, s in enumerate(seqs):
            out += [(k, v) for v in s]
    elif shape == 'reversed_blocks':
        for k in reversed(range(len(seqs))):
            out += [(k, v) for v in seqs[k]]
    elif shape == 'round_robin':
        i = 0
        while any(seqs):
            for k, s in enumerate(seqs):
                if s:
                    out.append((k, s.pop(0)))
            i += 1
    elif shape == 'singletons_first':
        for k, s in enumerate(seqs):
            if s:
                out.append((k, s.pop(0)))
        rest = [(k, v) for k, s in enumerate(seqs) for v in s]
        # keep per-key order while shuffling across keys
        order = [k for k, _ in rest]
        rng.shuffle(order)
        its = [iter(s) for s in seqs]
        out += [(k, next(its[k])) for k in order]
    else:
        order = [k for k, s in enumerate(seqs) for _ in s]
        rng.shuffle(order)
        its = [iter(s) for s in seqs]
        out = [(k, next(its[k])) for k in order]
    return out

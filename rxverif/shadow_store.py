"""E5 - shadow store: every call on the real MemoryStore is mirrored in a dict model and
all live slots are re-read after every operation (isolation), at the call boundary."""
from array import array

from .common import bootstrap

rs = bootstrap()
MemoryStore = rs.state.MemoryStore
NOTSET = rs.state.markers.STATE_NOTSET


def coerce(data_type, v):
    if data_type is int or data_type == 'uint':
        return int(v)
    if data_type is float:
        return float(v)
    if data_type is bool:
        return bool(v)
    return v


def same(data_type, model_v, real_v):
    if data_type is bool:
        return type(real_v) is bool and real_v == model_v
    if data_type is int or data_type == 'uint':
        return type(real_v) is int and real_v == model_v
    if data_type is float:
        return type(real_v) is float and (repr(real_v) == repr(model_v))       # value AND sign (0.0 vs -0.0)
    if data_type == 'mapper':
        return True            # mapper slots are read through get_map / iterate_map
    # objects: the store must hand back the very object that was stored (or at least one of the same type, value and
    # representation: 1 / 1.0 / True and 0.0 / -0.0 compare equal but are not the same value)
    if real_v is model_v:
        return True
    try:
        return type(real_v) is type(model_v) and real_v == model_v and repr(real_v) == repr(model_v)
    except Exception:
        return False


class Mismatch(Exception):
    pass


class ShadowMemoryStore(MemoryStore):
    """MemoryStore + dict model.  Deviations are appended to `self.sink` (a list shared by
    all states of a run when given) as dicts; nothing is raised into the code under test."""
    shared_sink = None          # set by the harness: list collecting deviations
    stats = None                # set by the harness: Counter of calls

    def __init__(self, name=None, data_type='obj', default_value=None):
        super().__init__(name=name, data_type=data_type, default_value=default_value)
        self.m = {}                 # index -> [is_set, value, key]
        self.maps = {}              # index -> list of (map_key, idx) in insertion order
        self.sname = name
        self.sink = ShadowMemoryStore.shared_sink if ShadowMemoryStore.shared_sink is not None else []
        self.breaches = 0           # calls outside the contract made by the *caller*
        self._in_add = False

    # -- helpers ------------------------------------------------------------
    def _bad(self, what, **kw):
        if len(self.sink) < 50:
            kw.update(what=what, state=self.sname, data_type=repr(self.data_type))
            self.sink.append(kw)

    def _count(self, op):
        if ShadowMemoryStore.stats is not None:
            ShadowMemoryStore.stats['store.' + op] += 1

    def _in_use(self):
        return {idx for mp in self.maps.values() for _, idx in mp}

    def verify_all(self, after):
        """isolation: every live slot still reads what the model says"""
        for i, (is_set, v, k) in self.m.items():
            try:
                r = MemoryStore.get(self, (i,))
            except Exception as e:          # noqa: BLE001
                self._bad('live slot unreadable', index=i, after=after, error=repr(e))
                continue
            if not is_set:
                if r is not NOTSET:
                    self._bad('slot should read NOTSET', index=i, after=after, got=repr(r))
            elif r is NOTSET:
                self._bad('slot lost its value', index=i, after=after, want=repr(v))
            elif not same(self.data_type, v, r):
                self._bad('slot reads a different value', index=i, after=after, want=repr(v), got=repr(r))
        if self.is_mapper:
            for i, mp in self.maps.items():
                if i not in self.m:
                    continue
                for mk, idx in mp:
                    try:
                        r = MemoryStore.get_map(self, (i,), mk)
                    except Exception as e:  # noqa: BLE001
                        self._bad('get_map raised', index=i, map_key=repr(mk), error=repr(e))
                        continue
                    if r is NOTSET or r != idx:
                        self._bad('mapped key reads a different index', index=i, map_key=repr(mk), want=idx, got=repr(r), after=after)

    # -- mirrored API ---------------------------------------------------------
    def add_key(self, key):
        self._count('add_key')
        self._in_add = True         # the base add_key calls self.set() for defaults / mappers
        try:
            r = super().add_key(key)
        finally:
            self._in_add = False
        i = key[0]
        if self.is_mapper:
            self.m[i] = [True, None, key]
            self.maps[i] = []
        elif self.default_value is not None:
            self.m[i] = [True, coerce(self.data_type, self.default_value), key]
        else:
            self.m[i] = [False, None, key]
        self.verify_all(('add_key', i))
        return r

    def del_key(self, key):
        self._count('del_key')
        r = super().del_key(key)
        i = key[0]
        if i not in self.m:
            self.breaches += 1
        self.m.pop(i, None)
        self.maps.pop(i, None)
        self.verify_all(('del_key', i))
        return r

    def set(self, key, value):
        if self._in_add:
            return super().set(key, value)
        self._count('set')
        r = super().set(key, value)
        i = key[0]
        if i not in self.m:
            self.breaches += 1
            return r
        self.m[i] = [True, coerce(self.data_type, value), key]
        self.verify_all(('set', i))
        return r

    def get(self, key):
        self._count('get')
        r = super().get(key)
        i = key[0]
        if i not in self.m:
            self.breaches += 1
            return r
        is_set, v, _ = self.m[i]
        if not is_set:
            if r is not NOTSET:
                self._bad('get: expected NOTSET', index=i, got=repr(r))
        elif r is NOTSET:
            self._bad('get: value lost', index=i, want=repr(v))
        elif not same(self.data_type, v, r):
            self._bad('get: wrong value', index=i, want=repr(v), got=repr(r))
        return r

    def iterate(self):
        self._count('iterate')
        got = list(super().iterate())
        keys = [g[0] for g in got]
        want = [self.m[i][2] for i in sorted(self.m)]
        if keys != want:
            self._bad('iterate: keys differ from the live keys', want=repr(want), got=repr(keys))
        else:
            for (k, v, is_set) in got:
                ms, mv, _ = self.m[k[0]]
                if bool(is_set) != ms or (ms and not self.is_mapper and not same(self.data_type, mv, coerce(self.data_type, v))):
                    self._bad('iterate: wrong value/marker', key=repr(k), want=repr((mv, ms)), got=repr((v, is_set)))
        return iter(got)

    def add_map(self, key, map_key):
        self._count('add_map')
        in_use = self._in_use()
        r = super().add_map(key, map_key)
        i = key[0]
        if i not in self.m:
            self.breaches += 1
            return r
        if r in in_use:
            self._bad('add_map: handed out an index that is still in use', index=i, map_key=repr(map_key), got=r)
        mp = self.maps[i]
        for n, (mk, _) in enumerate(mp):
            if mk == map_key:
                mp[n] = (mk, r)
                break
        else:
            mp.append((map_key, r))
        self.verify_all(('add_map', i))
        return r

    def get_map(self, key, map_key):
        self._count('get_map')
        r = super().get_map(key, map_key)
        i = key[0]
        if i not in self.m:
            self.breaches += 1
            return r
        for mk, idx in self.maps[i]:
            if mk == map_key:
                if r is NOTSET or r != idx:
                    self._bad('get_map: wrong index', index=i, map_key=repr(map_key), want=idx, got=repr(r))
                break
        else:
            if r is not NOTSET:
                self._bad('get_map: unmapped key should read NOTSET', index=i, map_key=repr(map_key), got=repr(r))
        return r

    def iterate_map(self, key):
        self._count('iterate_map')
        i = key[0]
        got = list(super().iterate_map(key))
        if i in self.m:
            want = [mk for mk, _ in self.maps[i]]
            if len(got) != len(want) or any(not (a == b) for a, b in zip(got, want)):
                self._bad('iterate_map: keys differ from the mapped keys (insertion order)', index=i,
                          want=repr(want), got=repr(got))
        else:
            self.breaches += 1
        return iter(got)

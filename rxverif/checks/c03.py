"""C03 - the mux event protocol is well-formed at every operator boundary.

Events : every call made by every MuxObservable to its subscriber (muxmon: the subscriber of each
         MuxObservable subscription is wrapped from the harness), i.e. the stream between any two
         operators, incl. tee branch inputs, store wrappers and (de)multiplexers.
Oracle : online automaton per boundary - create(k): k not live and no live key with the same slot index
         k[0]; item / error(k): k live; completed(k): k live, then dead; on_completed(): no live key;
         anything that is not one of the five event types (or the topology probe) is reported; after
         on_error() the boundary is closed (an erroring stream owes no completions).
"""
from ..common import Check, Outcome, bootstrap, with_prelude, prelude_tags, shrink_prelude, PRELUDE_TAGS, PRELUDE_RULE
from .. import gen, progs, model
from ..muxmon import Monitor

rs = bootstrap()

KINDS = {
    'roll': 'roll_mux._roll.subscribe',
    'roll_count': 'roll_mux._roll_count.subscribe',
    'split': 'split_mux._split.on_subscribe',
    'time_split': 'time_split_mux._time_split.on_subscribe',
    'group_by': 'group_by_mux._group_by.on_subscribe',
    'demux_mux': 'demux_mux_observable._demux.on_subscribe',
    'tee_map': '_process_many.subscribe_mux',
    'tee_branch_input': 'cast_as_mux_connectable._as_mux.on_subscribe',
    'with_store': 'with_store_mux._with_store.on_subscribe',
    'mux_observable': 'mux_observable.__mux.on_subscribe',
    'scan': 'scan_mux._scan.on_subscribe',
    'first': 'first_mux._first.on_subscribe',
    'last': 'last_mux._last.on_subscribe',
    'take': 'take_mux._take.on_subscribe',
}


class C03(Check):
    ID = 'C03'
    LEVEL = 'exploration'
    BUDGET = {'quick': 75, 'thorough': 240}
    RULE = ('case = (program, input). Programs come from the typed generator biased to structure: nesting depth 0..4 of group_by / roll / split / time_split / tee_map around '
            'arbitrary operators (incl. the multiplexed-only ones), window <,=,> stride, filters that empty a group, take(0); inputs of length 0, 1, shorter than a window, and '
            'long. The automaton runs on EVERY MuxObservable subscription of the run (10-40 boundaries per program). non-trivial = >= 2 nested key-producing operators or an '
            'empty / single-item source with at least one key-producing operator; distinct = hash of the case')
    RULE += PRELUDE_RULE
    ASSUMPTIONS = ['no user function raises (item-level errors are C13) except, in one family of cases, the function of a key-producing operator, where only the protocol is judged; an unhandled error closes the boundary',
                   'events after a boundary received on_error / on_completed are invisible to the subscriber (RxPY AutoDetachObserver) and are not judged']
    ANCHORS = ['rxsci/data/roll.py', 'rxsci/data/split.py', 'rxsci/data/time_split.py', 'rxsci/operators/group_by.py', 'rxsci/operators/tee_map.py',
               'rxsci/operators/multiplex.py', 'rxsci/state/with_store.py', 'rxsci/mux/muxobservable.py', 'rxsci/mux/muxconnectable.py']
    REQUIRED_TAGS = ['depth>=3', 'empty-source', 'single-item', 'scale', 'several-streams-on-one-store', 'a-key-producing-operator-whose-function-raises', 'group_by-under-several-simultaneously-live-parents', 'time_split-without-timestamps'] + ['history-fed-more-than-the-judged-stream'] + PRELUDE_TAGS
    REQUIRED_OBSERVED = ['boundary:' + k for k in KINDS] + ['events:create', 'events:next', 'events:completed', 'events:on_completed']

    def generate(self, rng, tier, shard, nshards):
        return with_prelude(self._generate(rng, tier, shard, nshards), rng, size=lambda c: len(c['items']) if 'items' in c else 10 ** 9)

    def _generate(self, rng, tier, shard, nshards):
        n = 3500 if tier == 'quick' else 10 ** 7
        for k in range(n):
            if tier == 'thorough' and k % 4 == 3:
                # the workloads of the differential checks, with only this monitor deciding
                from .c02 import gen_ctx
                o = gen.GenOpts(max_depth=rng.choice([0, 1, 2]), allow_progress=False, exclude_ops=('assert_',), ctx_weight=2, tee_weight=3,
                                no_streaming_mutation=True)
                ctx = gen_ctx(rng, o)
                prog = [ctx] if rng.random() < 0.5 else [['group_by', 'mod:%d' % rng.randint(2, 4), [ctx]]]
                yield {'prog': prog, 'items': gen.gen_items(rng, n=rng.choice([0, 1, 5, 20, 40]), sorted_=(ctx[0] == 'time_split'))}
                continue
            if k % 40 == 4:
                # several pushed streams sharing ONE store (with_store(sources=[...])), each through its own pipeline; one of
                # them ends first and somebody tries to subscribe it again while the others are still live
                m = rng.randint(2, 3)
                streams = []
                for _ in range(m):
                    o = gen.GenOpts(max_depth=rng.choice([0, 1, 2]), ctx_weight=6, tee_weight=0, allow_progress=False, no_streaming_mutation=True,
                                    exclude_ops=('tee_map',))
                    pr, _ = gen.gen_pipeline(rng, 'i', rng.randint(1, 3), o)
                    streams.append({'prog': pr, 'items': gen.gen_items(rng, n=rng.choice([0, 1, 3, 8, 15]), hi=12, sorted_=True)})
                yield {'multi': streams, 'oseed': rng.randrange(1 << 30), 'resubscribe': rng.randrange(m)}
                continue
            if k % 40 == 14:
                # a group_by inside an operator that keeps SEVERAL parent keys live at the same time and closes one of them mid-stream
                # (overlapping roll, group_by / split / group_by ...): the groups of the younger parents outlive the older parent
                inner = [['group_by', 'mod:%d' % rng.randint(2, 4), [rng.choice([['count', True], ['to_list'], ['scan', 'acc_add', 'zero', False, None]])]]]
                w = rng.randint(2, 6)
                outer = [['roll', w, rng.randint(1, w - 1), inner],
                         ['group_by', 'mod:2', [['split', 'div:%d' % rng.randint(2, 4), inner]]],
                         ['group_by', 'mod:2', [['roll', w, rng.randint(1, w - 1), inner]]],
                         ['group_by', 'mod:3', [['time_split', {'active': rng.choice([3, 5]), 'inactive': None, 'closing': None, 'include': True}, inner]]]][(k // 40) % 4]
                yield {'prog': [outer], 'items': gen.gen_items(rng, n=rng.choice([8, 16, 30]), hi=12, sorted_=True), 'overlapping_parents': True}
                continue
            if k % 40 == 34:
                # time_split used for its closing mapper only: no timeout, a time mapper that returns None (records without a timestamp)
                ts = ['time_split', {'active': None, 'inactive': None, 'closing': rng.choice(['modeq:3:0', 'modeq:2:1', 'true']), 'include': rng.random() < 0.5, 'time': 'tnone'},
                      [rng.choice([['count', True], ['to_list'], ['identity']])]]
                yield {'prog': [ts] if (k // 40) % 2 else [['group_by', 'mod:2', [ts]]], 'items': gen.gen_items(rng, n=rng.choice([1, 4, 9, 20]), hi=12, sorted_=True),
                       'no_timestamps': True}
                continue
            if k % 40 == 24:
                # the user function of a KEY-PRODUCING operator raises on some records (a split field that is None on a leading
                # record): whether that ends the stream - the unchanged tree lets the exception escape - or becomes a mux error
                # is not stated; that no event for a key that is not live is emitted at any boundary is (the errors are dropped
                # directly behind the operator)
                items = gen.gen_items(rng, n=rng.choice([1, 3, 8, 20]), hi=12, sorted_=True)
                bad = sorted(set([items[0]] * (k // 40 % 2) + rng.sample(items, min(len(items), rng.randint(1, 2)))))
                tail_, _ = gen.gen_pipeline(rng, 'i', rng.randint(0, 2), gen.GenOpts(max_depth=1, allow_progress=False, no_streaming_mutation=True, exclude_ops=('tee_map',)))
                inner = [['ignore']] + tail_
                vals = ','.join(str(v) for v in bad)
                ctx = [['split', 'raise_on:%s:div:%d' % (vals, rng.randint(2, 4)), inner],
                       ['group_by', 'raise_on:%s:mod:%d' % (vals, rng.randint(2, 4)), inner],
                       ['time_split', {'active': rng.choice([None, 4]), 'inactive': None, 'closing': 'raise_on:%s:modeq:3:0' % vals, 'include': True}, inner]][(k // 80) % 3]
                prog = [ctx] if (k // 240) % 2 else [['group_by', 'mod:2', [ctx]]]
                yield {'prog': prog, 'items': items, 'faulty_ctx': True}
                continue
            if k % 150 == 9:
                # scale: windows of 257-400 items, 300-1000 groups, take/batch/lag 257+ on ~700 items
                o = gen.GenOpts(max_depth=2, ctx_weight=8, tee_weight=2, allow_progress=False, no_streaming_mutation=True, scale=True,
                                exclude_ops=('fvariance', 'fstddev'))
                prog, _ = gen.gen_pipeline(rng, 'i', rng.randint(1, 3), o)
                # (the large context is not left to chance: the scale cases take these in turn, around the generated pipeline)
                big = [['roll', 300, 100, None], ['roll', 257, 256, None], ['group_by', 'mod:300', None], ['roll', 260, 130, None],
                       ['split', 'div:300', None], ['roll', 400, 399, None], ['group_by', 'kt:1000', None]][(k // 150) % 7]
                if (k // 150) % 2 == 0 or len(prog) > 2:
                    prog = [big[:-1] + [prog]]
                yield {'prog': prog, 'items': [rng.randint(0, 900) for _ in range(rng.choice([450, 900]))]}
                continue
            depth = rng.choice([1, 2, 3, 3, 4])
            opts = gen.GenOpts(max_depth=depth, ctx_weight=8, tee_weight=4, allow_progress=False, no_streaming_mutation=True)
            prog, _ = gen.gen_pipeline(rng, 'i', rng.randint(1, 4), opts)
            ln = rng.choice([0, 0, 1, 1, 2, 3, 6, 12, 30, 60])
            items = gen.gen_items(rng, n=ln, hi=rng.choice([3, 12, 30]), sorted_=rng.random() < 0.3)
            yield {'prog': prog, 'items': items}

    def _eval_multi(self, case, out):
        import random
        import rx
        from ..common import Snap
        out.tags.append('several-streams-on-one-store')
        streams = case['multi']
        if sum(1 for st in streams if any(x in progs.CONTEXTS for x in progs.op_names(st['prog']))) >= 1:
            out.nontrivial = True
        for st in streams:
            # a stream outside the stated domain (mean(reduce) of an empty key raises in the middle of a completion) leaves the shared
            # store and the re-subscription below in a state no property describes: not judged
            try:
                model.run(st['prog'], st['items'])
            except model.Discard as d:
                out.discarded = 'a stream outside the domain: %s' % d
                return out
            except Exception:       # noqa: BLE001 - the model does not know every operator; the run itself decides
                pass
        srcs = [progs.Controlled() for _ in streams]
        store = rs.state.StoreManager(store_factory=rs.state.MemoryStore)
        snaps = [Snap() for _ in streams]
        r = random.Random(case['oseed'])
        with Monitor() as mon:
            try:
                muxed = rs.state.with_store(store, sources=[sc.observable.pipe(rs.ops.mux_observable()) for sc in srcs])
                outs = []
                for mo, st in zip(muxed, streams):
                    ops_ = progs.build(st['prog'])
                    outs.append(mo.pipe(*ops_) if ops_ else mo)
                for o_, sn in zip(outs, snaps):
                    o_.subscribe(on_next=sn.on_next, on_error=sn.on_error, on_completed=sn.on_completed)
                pending = [list(st['items']) for st in streams]
                first_done = case['resubscribe']
                # the chosen stream is fed and completed first, then re-subscribed while the others are live
                order = [first_done] * len(pending[first_done])
                rest = [j for j, p in enumerate(pending) if j != first_done for _ in p]
                r.shuffle(rest)
                half = len(rest) // 2
                for j in rest[:half]:
                    srcs[j].push(pending[j].pop(0))
                for j in order:
                    srcs[j].push(pending[j].pop(0))
                srcs[first_done].complete()
                try:
                    outs[first_done].subscribe(on_next=lambda i: None, on_error=lambda e: None, on_completed=lambda: None)
                    out.observed['second_subscriptions_accepted'] += 1
                except Exception:       # noqa: BLE001 - refusing a second subscription is fine
                    out.observed['second_subscriptions_refused'] += 1
                for j in rest[half:]:
                    srcs[j].push(pending[j].pop(0))
                for j, sc in enumerate(srcs):
                    if j != first_done:
                        sc.complete()
            except Exception as e:      # noqa: BLE001
                out.fail('several-streams-on-one-store-raised', error=repr(e))
        for b in mon.boundaries:
            out.observed['boundaries_monitored'] += 1
            for ev, c in b.counts.items():
                out.observed['events:' + ev] += c
        if mon.violations:
            v = mon.violations[0]
            out.fail('protocol:' + v['kind'], boundary=v['boundary'], key=v['key'], extra=v['extra'], event_index=v['event_index'],
                     n_violations=len(mon.violations), streams=len(streams))
            return out
        for j, sn in enumerate(snaps):
            if sn.err is not None:
                try:
                    model.run(streams[j]['prog'], streams[j]['items'])
                except model.Discard:
                    continue
                except Exception:       # noqa: BLE001
                    continue
                out.fail('stream-error-in-a-fault-free-program', error=repr(sn.err), stream=j)
                return out
        return out

    def evaluate(self, case):
        out = Outcome()
        if case.get('multi'):
            return self._eval_multi(case, out)
        prog, items = case['prog'], case['items']
        names = progs.op_names(prog)
        nctx = sum(1 for x in names if x in ('group_by', 'roll', 'split', 'time_split'))
        d = progs.depth(prog)
        if d >= 3:
            out.tags.append('depth>=3')
        if not items:
            out.tags.append('empty-source')
        if len(items) == 1:
            out.tags.append('single-item')
        if len(items) >= 300:
            out.tags.append('scale')
        out.tags += sorted(set(x for x in names if x in progs.CONTEXTS))
        if nctx >= 2 or (nctx >= 1 and len(items) <= 1):
            out.nontrivial = True
        with Monitor() as mon:
            snap = progs.run_mux(prog, items, prelude=case.get('prelude'))
        if case.get('prelude'):
            prelude_tags(dict(case, prelude=progs.usable_prelude(prog, case['prelude'])), out)
        for b in mon.boundaries:
            out.observed['boundaries_monitored'] += 1
            for kind, name in KINDS.items():
                if b.name == name:
                    out.observed['boundary:' + kind] += 1
            for ev, c in b.counts.items():
                out.observed['events:' + ev] += c
        ml = max((b.maxlive for b in mon.boundaries), default=0)
        if ml > self.maxlive:
            self.maxlive = ml
        for nm in mon.kinds():
            self.kinds_seen.add(nm)
        if mon.violations:
            v = mon.violations[0]
            out.fail('protocol:' + v['kind'], boundary=v['boundary'], key=v['key'], extra=v['extra'], event_index=v['event_index'],
                     n_violations=len(mon.violations), stream_error=repr(snap.err))
            return out
        if case.get('no_timestamps'):
            out.tags.append('time_split-without-timestamps')
        if case.get('overlapping_parents'):
            out.tags.append('group_by-under-several-simultaneously-live-parents')
        if case.get('faulty_ctx'):
            out.tags.append('a-key-producing-operator-whose-function-raises')
            out.observed['runs_where_a_key_function_raised:' + ('stream ended with the error' if snap.err is not None else 'stream went on')] += 1
            return out
        if snap.err is not None:
            # a generated program must not fail - unless the model says it is outside the stated domain
            # (mean(reduce) of an empty key).  The protocol automaton above has judged the run either way.
            try:
                model.run(prog, items)
                outside = False
            except model.Discard:
                outside = True
            if not outside and isinstance(snap.err, ValueError) and 'truth value of an array' in str(snap.err) and 'npvec' in repr(prog):
                # comparing numpy arrays with != / == has no truth value: distinct_until_changed (or a key comparison) on values that
                # hold the numpy vector state is the user's type error (section 9, item 13); the model only sees it when ITS copies
                # of the arrays meet in a comparison, which depends on list lengths
                outside = True
            if outside:
                out.observed['runs_ending_in_a_domain_error'] += 1
            else:
                out.fail('stream-error-in-a-fault-free-program', error=repr(snap.err))
        elif not snap.done:
            out.fail('stream-did-not-complete')
        return out

    maxlive = 0
    kinds_seen = set()

    def extra_evidence(self):
        return {'max_simultaneously_live_keys_at_one_boundary': self.maxlive,
                'distinct_boundary_kinds_monitored': sorted(self.kinds_seen)}

    def shrink(self, case):
        yield from shrink_prelude(case)
        if case.get('multi'):
            for j, st in enumerate(case['multi']):
                for k in range(len(st['items'])):
                    ms = [dict(x) for x in case['multi']]
                    ms[j]['items'] = st['items'][:k] + st['items'][k + 1:]
                    yield dict(case, multi=ms)
            return
        from .c11 import shrink_prog
        items = case['items']
        for k in range(len(items)):
            yield dict(case, items=items[:k] + items[k + 1:])
        for c in shrink_prog(case):
            if c['prog'] and progs.well_typed(c['prog']) is not None:
                yield c


CHECK = C03()

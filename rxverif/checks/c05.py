"""C05 - roll produces exactly the count-based sliding windows, progs, in order.

Events : create / item / completed of every window key at the head of roll's inner pipeline, the
         items roll itself received (tap in front of it) and its to_list output (tap behind it),
         all in one real-time log.
Oracle : windows_k = items[k*s : k*s+w] for k*s < n; windows are created in order k = 0,1,..; each
         receives exactly windows_k (each item while that source item is being processed); a full
         window is closed while its w-th item is processed, partial windows when the key completes;
         completions in opening order; to_list output == [windows_0, windows_1, ...].
"""
import random

from ..common import Check, Outcome, bootstrap, interleave, with_prelude, prelude_tags, shrink_prelude, PRELUDE_TAGS, PRELUDE_RULE
from .. import windows, progs

rs = bootstrap()


def expected_windows(n, w, s):
    out = []
    a = 0
    while a < n:
        b = min(a + w, n)
        out.append({'idx': list(range(a, b)), 'close': a + w - 1 if a + w <= n else n})
        a += s
    return out


class C05(Check):
    ID = 'C05'
    LEVEL = 'exploration'
    BUDGET = {'quick': 75, 'thorough': 240}
    EXHAUSTIVE = {'quick': False, 'thorough': False}
    RULE = ('case = (window w, stride s, stream, parent context). Box: EVERY (w, s, n) with w,s in 1..8 and n in 0..min(4*w*s+3, 80) (quick) / w,s in 1..11, n <= 140 (thorough) at top level '
            '(wraps the ceil(w/s) slot ring several times); then random w,s <= 12 (every 75th case windows of 257-1000 items) under group_by with interleaved keys (int / tuple / string keys), nested in roll '
            '(w != s and w == s variants: key slots are reused by successive outer windows), in split, in time_split, group_by>roll and roll>group_by. '
            'non-trivial = some key lifetime has >= 2 windows; distinct = hash of the case')
    RULE += PRELUDE_RULE
    ASSUMPTIONS = ['the order in which ONE source item is delivered to several simultaneously open windows is not constrained (the suite pins slot order, the property does not)']
    ANCHORS = ['rxsci/data/roll.py', 'rxsci/operators/multiplex.py']
    REQUIRED_TAGS = ['window-slot-indices-beyond-65535', 'top', 'group', 'roll', 'roll_eq', 'split', 'w<s', 'w=s', 'w>s', 'w%s!=0', 'n=0', 'n<w', 'ring-wrapped', 'w>256', 'numpy-typed-parameters', 'operator-object-used-in-two-pipelines', 'stride-sweep', 'consumer-runs-a-pipeline-built-with-the-same-operator-object', 'over-255-windows-open-on-one-key'] + ['history-fed-more-than-the-judged-stream'] + PRELUDE_TAGS + ['prelude:overlap']
    REQUIRED_OBSERVED = ['child_lifetimes_checked', 'parent_lifetimes_checked', 'partial_windows_flushed']

    def generate(self, rng, tier, shard, nshards):
        def npp(cases):
            # window and stride that fit a narrow numpy type while their sum does not (a downcast parameter table)
            for w_, s_, kind in ((100, 50, 'int8'), (200, 100, 'uint8'), (20000, 15000, 'int16'), (90, 60, 'int8'), (100, 120, 'int8'), (130, 127, 'uint8')):
                for n_ in (0, 1, 40, 260):
                    yield {'w': w_, 's': s_, 'parent': 'top' if n_ % 2 else 'group', 'parent_node': None if n_ % 2 else windows.PARENTS['group'](rng),
                           'items': [rng.randint(0, 40) for _ in range(n_)], 'np_params': kind}
            # more than 255 windows open on one key at the same time (a yearly window advancing daily): counters and flags kept in a byte
            for w_, s_, n_ in ((300, 1, 310), (514, 2, 530), (257, 1, 258)):
                yield {'w': w_, 's': s_, 'parent': 'top' if n_ % 4 else 'group', 'parent_node': None if n_ % 4 else ['group_by', 'mod:1', None],
                       'items': [rng.randint(0, 40) for _ in range(n_)], 'dense': True}
            # window state slots beyond 65535: 6 000 groups with twelve window slots each (quick) / 33 000 with three (thorough), partial windows
            # still open when the groups complete (slot indices packed into 16 bits)
            if shard == 0:
                w_, g_ = (12, 6000) if tier == 'quick' else (3, 33000)       # (slot index = group index * ceil(w / s) + slot)
                yield {'w': w_, 's': 1, 'parent': 'group', 'parent_node': ['group_by', 'mod:%d' % g_, None], 'items': list(range(2 * g_)), 'many_slots': True}
            # a sweep over the STRIDE values themselves (reciprocals, tables, special-cased sizes): stride s, window 2s or s + 11,
            # 2.2 s + 3 items
            top = 200 if tier == 'quick' else 1100
            for s_ in range(13 + shard, top + 1, max(1, nshards)):
                w_ = 2 * s_ if s_ % 2 else s_ + 11
                yield {'w': w_, 's': s_, 'parent': 'top' if s_ % 3 else 'group', 'parent_node': None if s_ % 3 else ['group_by', 'mod:2', None],
                       'items': list(range(int(2.2 * s_) + 3)) if s_ % 3 else list(range(int(4.4 * s_) + 6)), 'stride_sweep': True}
            r2 = random.Random(rng.randrange(1 << 30))      # (drawn, not `n % k`: the case order cycles through the contexts with small periods)
            for n, c in enumerate(cases):
                if r2.random() < 1 / 6 and not c.get('np_params'):
                    c = dict(c, reuse=True)
                if r2.random() < 1 / 5:
                    c = dict(c, np_params=r2.choice(('int64', 'int32', 'int8', 'uint8', 'int16')))
                yield c
        return with_prelude(npp(self._generate(rng, tier, shard, nshards)), rng, overlap=True)

    def _generate(self, rng, tier, shard, nshards):
        return interleave(self._box(tier, shard, nshards), self._nested(rng, tier))

    def _box(self, tier, shard, nshards):
        m = 8 if tier == 'quick' else 11
        idx = 0
        for w in range(1, m + 1):
            for s in range(1, m + 1):
                for n in range(0, min(4 * w * s + 3, 80 if tier == 'quick' else 140) + 1):
                    idx += 1
                    if idx % nshards != shard:
                        continue
                    yield {'w': w, 's': s, 'parent': 'top', 'parent_node': None, 'items': list(range(n))}
        self.box_done = 1

    def _nested(self, rng, tier):
        k = 1500 if tier == 'quick' else 10 ** 7
        names = ['group', 'roll', 'roll_eq', 'split', 'time_split', 'group>roll', 'roll>group', 'top']
        for j in range(k):
            name = names[j % len(names)]
            w, s = rng.randint(1, 12), rng.randint(1, 12)
            if j % 5 == 0:
                s = w
            if j % 75 == 37:
                # windows beyond CPython's small-int cache (257+) and long strides, streams that wrap the slot ring
                w, s = rng.choice([(300, 100), (257, 256), (400, 399), (1000, 250), (260, 1), (300, 300), (100, 400)])
                if w // s > 50:
                    w, s = 260, 65
                nbig = rng.choice([w + 3, 2 * w + s + 1, 4 * w + 7])
                name = names[(j // 75) % 2 * 7]          # 'group' or 'top'
                yield {'w': w, 's': s, 'parent': name, 'parent_node': windows.PARENTS[name](rng), 'items': [rng.randint(0, 40) for _ in range(nbig)]}
                continue
            n = rng.choice([0, 1, 3, 10, 25, 60, 120])
            items = [rng.randint(0, 40) for _ in range(n)]
            if name == 'time_split':
                items.sort()
            yield {'w': w, 's': s, 'parent': name, 'parent_node': windows.PARENTS[name](rng), 'items': items}

    def evaluate(self, case):
        out = Outcome()
        w, s, items = case['w'], case['s'], case['items']
        n = len(items)
        out.tags += [case['parent'].split('>')[0], 'w<s' if w < s else 'w=s' if w == s else 'w>s']
        if case['parent'] != 'top':
            out.tags.append('nested')
        if w % s:
            out.tags.append('w%s!=0')
        if case.get('many_slots'):
            out.tags.append('window-slot-indices-beyond-65535')
        if w > 256:
            out.tags.append('w>256')
        if n == 0:
            out.tags.append('n=0')
        elif n < w:
            out.tags.append('n<w')
        x = ['roll', w, s, None]
        if case.get('np_params'):
            x = progs.np_params(x, case['np_params'])
            out.tags.append('numpy-typed-parameters')
        if case.get('reuse'):
            out.tags.append('operator-object-used-in-two-pipelines')
        if case.get('stride_sweep'):
            out.tags.append('stride-sweep')
        if -(-w // s) > 255 and n >= 256 * s:
            out.tags.append('over-255-windows-open-on-one-key')
        ob = windows.observe(case['parent_node'], x, items, prelude=case.get('prelude'), reuse=bool(case.get('reuse')))
        prelude_tags(case, out)
        if ob.snap.err is not None or not ob.snap.done:
            return out.fail('roll:stream-error', error=repr(ob.snap.err), done=ob.snap.done)
        if ob.odd or ob.orphans:
            return out.fail('roll:events-outside-a-window-lifetime', odd=[repr(o) for o in ob.odd[:5]],
                            orphans=[repr(c.key) for c in ob.orphans[:5]])
        viol = [v for v in ob.monitor.violations]
        if viol:
            return out.fail('roll:mux-protocol-violated', violations=viol[:3])
        density = -(-w // s)
        for p in ob.parents:
            exp = expected_windows(len(p.xs), w, s)
            out.observed['parent_lifetimes_checked'] += 1
            if len(exp) >= 2:
                out.nontrivial = True
            if len(exp) > 2 * density and density > 1:
                out.tags.append('ring-wrapped')
            out.observed['partial_windows_flushed'] += sum(1 for e in exp if e['close'] == len(p.xs))
            if windows.check_partition(out, ob, p, exp, 'roll'):
                f = out.failures[-1]
                if f['kind'] == 'roll:windows-not-closed-in-opening-order' or (
                        f['kind'] == 'roll:to_list-output-differs' and sum(1 for e in exp if e['close'] == len(p.xs)) >= 2):
                    f['mech'] = 'roll-partial-windows-flushed-in-slot-order'
                return out
        out.observed['events_logged'] += len(ob.log)
        if case['parent'] == 'top' and not case.get('np_params') and n <= 150 and not out.failures:
            out.tags.append('consumer-runs-a-pipeline-built-with-the-same-operator-object')
            windows.nested_consumer(['roll', w, s, None], items, [v + 1000 for v in items[:(n * 2) // 3 + 1]], out, 'roll')
        return out

    box_done = 0

    def extra_evidence(self):
        return {'shards_that_enumerated_their_part_of_the_box_completely': self.box_done}

    def shrink(self, case):
        yield from shrink_prelude(case)
        items = case['items']
        if case['parent'] == 'top':
            if items:
                yield dict(case, items=items[:-1])
            return
        for k in range(len(items)):
            yield dict(case, items=items[:k] + items[k + 1:])
        yield dict(case, parent='top', parent_node=None)


CHECK = C05()

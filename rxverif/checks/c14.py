"""C14 - the memory state store behaves as an isolated per-index typed map.

Events : the return value of every store method (ShadowMemoryStore wraps the real MemoryStore).
Oracle : dict model; after every operation ALL live slots of ALL states are re-read and
         compared (isolation), iterate / iterate_map enumerate exactly the live / mapped keys,
         add_map never returns an index that is still mapped.
Workloads: (a) random contract-respecting histories per data type, directly and through
         StoreManager/Store with several states; (b) real operator pipelines running on the
         shadow store (group_by, roll, split, time_split, tee_map, scan, distinct, lag ...).
"""
import random
from collections import Counter

import rx

from ..common import Check, Outcome, Snap, subscribe, bootstrap
from .. import shadow_store
from .. import progs
from ..shadow_store import ShadowMemoryStore

rs = bootstrap()
NOTSET = rs.state.markers.STATE_NOTSET

DTYPES = {'int': int, 'uint': 'uint', 'float': float, 'bool': bool, 'obj': 'obj', 'mapper': 'mapper'}
DOMAINS = {
    'dense': list(range(0, 7)),
    'sparse': [0, 1, 5, 17, 100, 1000, 9999],
    'descending': [40, 30, 20, 10, 5, 3, 2, 1, 0],
    'tiny': [0, 1, 2],
    # tables of more than 65536 slots (a high-cardinality group_by; one far-away index): block-wise walks, 16-bit counters
    'far': [0, 3, 65535, 65536, 65537, 70001, 100000, 131072, 200003],
    # sequential growth far beyond CPython's small-int cache and typical allocation blocks (64 / 256 / 1024)
    'wide': list(range(0, 1300)),
}


def decode_key(spec):
    """map keys that are equal but not identical objects, built at run time"""
    k, v = spec
    if k == 't':
        return tuple(int(str(x)) for x in v)
    if k == 's':
        return ''.join(list(v))
    if k == 'i':
        return int(str(v))
    if k == 'f':
        return float(v)
    if k == 'b':
        return bool(v)
    return v


def decode_val(v):
    """{'np': 'uint32', 'v': 41} -> numpy.uint32(41): values of another numeric type that a typed state converts"""
    if isinstance(v, dict) and set(v) == {'np', 'v'}:
        import numpy
        return getattr(numpy, v['np'])(v['v'])
    return v


def rand_value(r, dt):
    # typed states CONVERT what they are given: a bool or a numpy scalar written to an int / uint / float state reads
    # back as a plain int / float of the same value
    if dt == 'int':
        return r.choice([0, 1, -1, 2**62, -2**63, 2**63 - 1, r.randint(-10**9, 10**9), True, False, {'np': 'int64', 'v': -5}, {'np': 'int32', 'v': 7}])
    if dt == 'uint':
        return r.choice([0, 1, 2**64 - 1, r.randint(0, 10**12), True, False, {'np': 'uint32', 'v': 41}, {'np': 'int64', 'v': 9}])
    if dt == 'float':
        return r.choice([0.0, -0.0, 0.0, -0.0, 1.5, -2.5e300, 5e-324, r.uniform(-1e6, 1e6), 3, 1, 1.0, True, {'np': 'float64', 'v': 2.5},
                         {'np': 'float32', 'v': 0.5}, {'np': 'int64', 'v': 3}])
    if dt == 'bool':
        return r.random() < 0.5
    return r.choice([None, 0, '', 'x', [1, 2], {'a': 1}, [], False, 7.5, [None], 1, 1.0, True, 0.0, -0.0, 1, 1.0, True, [1], [1.0], [True]])


def rand_map_key(r):
    k = r.random()
    if k < 0.3:
        return ['t', [r.randint(0, 3), r.randint(0, 2)]]
    if k < 0.5:
        return ['s', r.choice(['a', 'ab', '', 'key'])]
    if k < 0.7:
        return ['i', r.choice([0, 1, 2, 1000, 10**12])]
    if k < 0.85:
        return ['f', r.choice([0.0, 1.0, 2.5, 1000.0])]
    return ['b', r.choice([0, 1])]


def gen_history(r, states, nops, domain):
    """Generate only calls the contract allows, tracking liveness at generation time."""
    live = [set() for _ in states]
    mapped = [dict() for _ in states]        # index -> list of decoded keys
    ops = []
    ever = [set() for _ in states]
    dom = DOMAINS[domain]
    for _ in range(nops):
        s = r.randrange(len(states))
        dt = states[s]['dtype']
        lv = live[s]
        choices = ['add'] if domain != 'wide' else ['add'] * 12
        if lv:
            choices += ['set', 'get', 'get', 'del', 'iterate', 'readd']
            if dt == 'mapper':
                choices = ['add', 'del', 'iterate', 'add_map', 'add_map', 'add_map', 'get_map', 'get_map', 'iterate_map', 'readd']
        else:
            choices += ['iterate']
        gone = sorted(ever[s] - lv)
        if gone and domain != 'wide':
            choices += ['redel']
        op = r.choice(choices)
        if op == 'redel':
            # a second del_key on an index that was added once and is deleted now (a key completed and then failed, a purge loop run
            # twice): it is idempotent - no other index may notice
            ops.append([s, 'del_key', r.choice(gone), None])
            continue
        if op == 'add':
            cand = [i for i in dom if i not in lv] or dom
            i = r.choice(cand) if domain != 'wide' else (min(cand) if r.random() < 0.9 else r.choice(cand))
            lv.add(i)
            ever[s].add(i)
            mapped[s][i] = []
            ops.append([s, 'add_key', i, None])
        elif op == 'readd':
            i = r.choice(sorted(lv))
            mapped[s][i] = []
            ops.append([s, 'add_key', i, None])
        elif op == 'set':
            ops.append([s, 'set', r.choice(sorted(lv)), rand_value(r, dt)])
        elif op == 'get':
            ops.append([s, 'get', r.choice(sorted(lv)), None])
        elif op == 'del':
            i = r.choice(sorted(lv))
            lv.discard(i)
            mapped[s].pop(i, None)
            ops.append([s, 'del_key', i, None])
        elif op == 'iterate' and lv and dt != 'mapper' and r.random() < 0.5:
            # a walk consumed step by step with other calls in between - the expiry loop
            # `for key, value, is_set in store.iterate(): if expired: store.del_key(key)`
            plan = []
            lv0 = set(lv)
            for step in range(r.randint(1, len(lv) + 1)):
                for _ in range(r.choice([0, 1, 1, 2])):
                    if not lv:
                        break
                    sub = r.choice(['del', 'del', 'set', 'readd', 'add'])
                    if sub == 'del':
                        i = r.choice(sorted(lv))
                        lv.discard(i)
                        plan.append([step, 'del_key', i, None])
                    elif sub == 'set':
                        plan.append([step, 'set', r.choice(sorted(lv)), rand_value(r, dt)])
                    elif sub == 'readd':
                        plan.append([step, 'add_key', r.choice(sorted(lv)), None])
                    else:
                        i = r.choice(dom)
                        lv.add(i)
                        plan.append([step, 'add_key', i, None])
            if r.random() < 0.4:
                # abandoned after a few steps (next(it) peek, `for ... break`, any(...)); a complete iterate() follows at once
                short = [p for p in plan if p[0] <= 1]
                lv.clear()
                lv.update(lv0)                  # (only the calls of the shortened plan happen)
                for _, sub, j, _a in short:
                    if sub == 'add_key':
                        lv.add(j)
                    elif sub == 'del_key':
                        lv.discard(j)
                ops.append([s, 'walk', None, {'abandon_after': r.randint(0, 3), 'plan': short}])
                ops.append([s, 'iterate', None, None])
            else:
                ops.append([s, 'walk', None, plan])
        elif op == 'iterate':
            ops.append([s, 'iterate', None, None])
        elif op == 'add_map':
            i = r.choice(sorted(lv))
            mk = rand_map_key(r)
            d = decode_key(mk)
            if any(d == x for x in mapped[s][i]):
                ops.append([s, 'get_map', i, mk])
            else:
                mapped[s][i].append(d)
                ops.append([s, 'add_map', i, mk])
        elif op == 'get_map':
            ops.append([s, 'get_map', r.choice(sorted(lv)), rand_map_key(r)])
        elif op == 'iterate_map':
            ops.append([s, 'iterate_map', r.choice(sorted(lv)), None])
    return ops


def valid_history(states, ops):
    """True when every call is one the contract allows (used to filter shrink candidates)"""
    live = [set() for _ in states]
    ever = [set() for _ in states]
    mapped = [dict() for _ in states]
    for s, op, i, arg in ops:
        if op == 'add_key':
            live[s].add(i)
            ever[s].add(i)
            mapped[s][i] = []
        elif op == 'iterate':
            pass
        elif op == 'walk':
            for _, sub, j, _a in (arg['plan'] if isinstance(arg, dict) else arg):
                if sub == 'add_key':
                    live[s].add(j)
                    mapped[s][j] = []
                elif j not in live[s]:
                    return False
                elif sub == 'del_key':
                    live[s].discard(j)
        elif op == 'del_key' and i in ever[s] and i not in live[s]:
            pass        # a repeated del_key of a deleted index
        elif i not in live[s]:
            return False
        elif op == 'del_key':
            live[s].discard(i)
        elif op == 'add_map':
            d = decode_key(arg)
            if any(d == x for x in mapped[s][i]):
                return False
            mapped[s][i].append(d)
    return True


# -- operator workloads on the shadow store -----------------------------------
def _pipelines():
    ops, data = rs.ops, rs.data
    return {
        'group_roll_sum': lambda: [ops.group_by(lambda i: i % 3, [data.roll(3, 2, [rs.math.sum(reduce=True)])])],
        'roll_tee_zip': lambda: [data.roll(4, 1, [ops.tee_map(ops.count(reduce=True), rs.math.max(reduce=True), data.to_list())])],
        'group_group_last': lambda: [ops.group_by(lambda i: i % 2, [ops.group_by(lambda i: i % 5, [ops.last()])])],
        'split_distinct_lag': lambda: [data.split(lambda i: i // 4, [ops.distinct(), data.lag(2), ops.map(lambda t: t[0] + t[1])])],
        'time_split_first_take': lambda: [data.time_split(lambda i: i, active_timeout=5, inactive_timeout=3,
                                                          pipeline=[ops.tee_map(ops.first(), ops.take(2), join='merge')])],
        'group_pad_startwith_batch': lambda: [ops.group_by(lambda i: (i % 4, str(i % 4)), [
            data.pad_start(2), ops.start_with([0]), data.pad_end(1, 9), data.batch(3), ops.map(len)])],
        'roll_roll_duc_assert1': lambda: [data.roll(5, 5, [data.roll(2, 1, [ops.distinct_until_changed(), ops.assert_1(lambda a, b: True), ops.count(reduce=True)])])],
        'group_combine_latest': lambda: [ops.group_by(lambda i: i % 3, [ops.tee_map(ops.filter(lambda i: i % 2 == 0), rs.math.mean(), join='combine_latest'),
                                                                     ops.map(lambda t: 0 if t[0] is None else t[0])])],
    }


class C14(Check):
    ID = 'C14'
    LEVEL = 'exploration'
    BUDGET = {'quick': 75, 'thorough': 240}
    RULE = ('case (a) = (list of 1..3 states each (data type in int/uint/float/bool/obj/mapper, default or None), index domain dense/sparse(0..9999)/'
            'descending/tiny/wide (sequential growth to several hundred live slots, beyond 256), access direct or through StoreManager->Store, history of 50..400 contract-respecting operations add_key / re-add / set / get / '
            'del_key / iterate / add_map / get_map / iterate_map with map keys that are equal-but-not-identical objects); after EVERY operation every live '
            'slot of every state is re-read against the dict model. case (b) = (named operator pipeline, input) run on the shadow store. '
            'non-trivial = >= 3 live indices at some point and >= 1 delete followed by re-add of the same index (a) / >= 50 store calls (b); distinct = hash of the case')
    ASSUMPTIONS = ['only calls the store contract allows are issued in (a): no read of a never-added or deleted index',
                   'del_map is not part of the property (the quantifier does not list it) and is only exercised through group_by in (b)']
    ANCHORS = ['rxsci/state/memory_store.py', 'rxsci/state/store.py']
    REQUIRED_TAGS = ['one-mapper-with-over-2**20-indices-in-use', 'default-value-that-is-callable', 'dtype=int', 'dtype=uint', 'dtype=float', 'dtype=bool', 'dtype=obj', 'dtype=mapper', 'default', 'no-default',
                     'direct', 'manager', 'sparse', 'descending', 'pipeline', 'wide', 'far', 'stepwise-walk', 'abandoned-walk', 'type-names-built-at-run-time', 'large-maps']
    REQUIRED_OBSERVED = ['walk_steps', 'untouched_slots_checked_in_walks', 'store.add_key', 'store.set', 'store.get', 'store.del_key', 'store.iterate',
                         'store.add_map', 'store.get_map', 'store.iterate_map', 'slot_rereads']

    def generate(self, rng, tier, shard, nshards):
        n = 650 if tier == 'quick' else 10 ** 7
        dts = list(DTYPES)
        doms = list(DOMAINS)
        pnames = sorted(_pipelines())
        h = -1
        for k in range(n):
            if k in (3, 11) and shard == 0:
                # one mapper that hands out more than 2**16 / 2**20 indices while the first ones are still in use (a flat group_by on
                # a user id): an index counter that wraps hands out index 0 again
                yield {'kind': 'bigmap', 'first': ((1 << 16) if k == 3 else (1 << 20)) + 10, 'second': 3, 'then': 40, 'reopen': False}
                continue
            if k % 130 == 7:
                # large group-index maps: one outer key maps thousands of groups in a row, is deleted while another is alive, and more
                # groups are mapped afterwards than it had (light form: the handed-out indices are checked against a set)
                a = rng.choice([4096, 5000, 6000])
                yield {'kind': 'bigmap', 'first': a, 'second': rng.choice([3, 10, 300]), 'then': a + rng.choice([1, 1000]), 'reopen': bool(k // 130 % 2)}
                continue
            if k % 6 == 5:
                yield {'kind': 'pipeline', 'name': pnames[(k // 6) % len(pnames)],
                       'items': sorted(rng.randint(0, 40) for _ in range(rng.randint(0, 40))) if 'time' in pnames[(k // 6) % len(pnames)]
                       else [rng.randint(0, 12) for _ in range(rng.randint(0, 40))]}
                continue
            nstates = 1 if k % 3 else rng.randint(2, 3)
            states = []
            for j in range(nstates):
                dt = rng.choice(dts)         # (drawn: k also selects `via`)
                default = None
                if dt != 'mapper' and rng.random() < 0.4:
                    default = {'int': rng.choice([0, -1, 5]), 'uint': rng.choice([0, 7]), 'float': rng.choice([0.0, 1.5]),
                               'bool': rng.choice([False, True]),
                               # (an obj default may be a value that happens to be callable - a converter, a handler: it is stored, not called)
                               'obj': rng.choice([0, 'd', [1], {'callable': 'str'}, {'callable': 'function'}, {'callable': 'partial'}])}[dt]
                states.append({'dtype': dt, 'default': default})
            h += 1                      # (history cases only: the domains must not beat with the pipeline turn)
            dom = doms[h % len(doms)]
            if dom == 'wide' and (h // len(doms)) % 4:
                dom = 'sparse'          # the wide histories are long: one in four of their turn
            if dom == 'far' and (h // len(doms)) % 5:
                dom = 'descending'      # every walk over a table of 200 000 slots is slow: one in five, short histories
            yield {'kind': 'history', 'states': states, 'via': 'direct' if (nstates == 1 and k % 2) else 'manager',
                   'domain': dom, 'ops': gen_history(rng, states, 900 if dom == 'wide' else 30 if dom == 'far' else rng.choice([50, 120, 400]), dom),
                   'dtype_literals': bool(rng.getrandbits(1))}      # (drawn: k % 2 selects `via`, h the domain)

    # ------------------------------------------------------------------
    def evaluate(self, case):
        out = Outcome()
        sink = []
        stats = Counter()
        ShadowMemoryStore.shared_sink = sink
        ShadowMemoryStore.stats = stats
        try:
            if case['kind'] == 'bigmap':
                return self._eval_bigmap(case, out)
            if case['kind'] == 'pipeline':
                self._eval_pipeline(case, out, stats)
            else:
                self._eval_history(case, out)
        finally:
            ShadowMemoryStore.shared_sink = None
            ShadowMemoryStore.stats = None
        out.observed.update(stats)
        for dev in sink[:3]:
            out.fail('store-deviates-from-map-model', **dev)
        return out

    def _eval_bigmap(self, case, out):
        from rxsci.state.memory_store import MemoryStore
        out.tags += ['dtype=mapper', 'large-maps']
        if case['first'] > (1 << 20):
            out.tags.append('one-mapper-with-over-2**20-indices-in-use')
        out.nontrivial = True
        st = MemoryStore(name='m', data_type='mapper')
        in_use = {}                      # index -> (outer, map key)
        maps = {0: {}, 1: {}, 2: {}}

        def add(outer, mk):
            idx = st.add_map((outer, (0,)), mk)
            out.observed['store.add_map'] += 1
            if idx in in_use:
                out.fail('add_map: handed out an index that is still in use', index=idx, held_by=repr(in_use[idx]), new=repr((outer, mk)))
                return False
            in_use[idx] = (outer, mk)
            maps[outer][mk] = idx
            return True

        def drop(outer):
            # what group_by does when the outer key completes
            for mk in list(st.iterate_map((outer, (0,)))):
                st.del_map((outer, (0,)), mk)
            st.del_key((outer, (0,)))
            for mk, idx in maps[outer].items():
                in_use.pop(idx, None)
            maps[outer] = {}
        st.add_key((0, (0,)))
        st.add_key((1, (0,)))
        for j in range(case['first']):
            if not add(0, 'user-%d' % j):
                return out
        for j in range(case['second']):
            if not add(1, ('b', j)):
                return out
        drop(0)
        target = 0 if case['reopen'] else 2
        st.add_key((target, (0,)))
        for j in range(case['then']):
            if not add(target, 'user-%d' % (j + 7)):
                return out
        # every mapped key still reads its index; enumeration is exact
        for outer in (1, target):
            got = list(st.iterate_map((outer, (0,))))
            if sorted(map(repr, got)) != sorted(map(repr, maps[outer])):
                out.fail('iterate_map: keys differ from the mapped keys', outer=outer, n_got=len(got), n_want=len(maps[outer]))
                return out
            for mk, idx in list(maps[outer].items())[:: max(1, len(maps[outer]) // 50)]:
                if st.get_map((outer, (0,)), mk) != idx:
                    out.fail('get_map: wrong index', outer=outer, map_key=repr(mk), want=idx, got=repr(st.get_map((outer, (0,)), mk)))
                    return out
        out.observed['slot_rereads'] += 100
        return out

    def _eval_pipeline(self, case, out, stats):
        out.tags += ['pipeline', 'pipeline=' + case['name']]
        stores = []

        def factory(name=None, data_type='obj', default_value=None):
            s = ShadowMemoryStore(name=name, data_type=data_type, default_value=default_value)
            stores.append(s)
            return s
        pipe = _pipelines()[case['name']]()
        snap = subscribe(rx.from_(case['items']).pipe(
            rs.state.with_store(rs.state.StoreManager(store_factory=factory), pipe)), Snap())
        if snap.err is not None:
            out.fail('pipeline-on-shadow-store-errored', error=repr(snap.err))
        out.observed['slot_rereads'] += sum(stats.values())
        out.observed['operator_contract_breaches'] += sum(s.breaches for s in stores)
        if sum(stats.values()) >= 50:
            out.nontrivial = True

    def _eval_history(self, case, out):
        states = case['states']
        built = not case.get('dtype_literals', True)
        if built:
            out.tags.append('type-names-built-at-run-time')

        def DT(name):
            d = DTYPES[name]
            # a type NAME that is equal to the literal without being the same (interned) object - read from a
            # configuration file, lower-cased, concatenated
            return ''.join(list(d)) if (built and isinstance(d, str)) else d
        out.tags += [case['via'], case['domain']]
        for st in states:
            out.tags.append('dtype=' + st['dtype'])
            out.tags.append('default' if st['default'] is not None else 'no-default')
            if isinstance(st['default'], dict) and 'callable' in st['default']:
                out.tags.append('default-value-that-is-callable')
        if case['via'] == 'direct':
            stores = [ShadowMemoryStore(name='s0', data_type=DT(states[0]['dtype']), default_value=progs.pad_value(states[0]['default']))]
            call = lambda s, op, *a: getattr(stores[s], op)(*a)                     # noqa: E731
        else:
            from rxsci.state.state_topology import StateTopology
            topo = StateTopology()
            ids = []
            for j, st in enumerate(states):
                if st['dtype'] == 'mapper':
                    ids.append(topo.create_mapper('m%d' % j))
                else:
                    ids.append(topo.create_state('s%d' % j, DT(st['dtype']), progs.pad_value(st['default'])))
            mgr = rs.state.StoreManager(store_factory=ShadowMemoryStore)
            mgr.set_topology(topo)
            store = mgr.get_store()
            stores = store.states
            names = {'add_key': 'add_key', 'del_key': 'del_key', 'set': 'set_state', 'get': 'get_state',
                     'iterate': 'iterate_state', 'add_map': 'add_map', 'get_map': 'get_map', 'iterate_map': 'iterate_map'}
            call = lambda s, op, *a: getattr(mgr, names[op])(ids[s], *a)             # noqa: E731
        maxlive = 0
        deleted = set()
        readded = False
        for n, (s, op, i, arg) in enumerate(case['ops']):
            key = (i, (0,)) if i is not None else None
            try:
                if op == 'add_key':
                    if (s, i) in deleted:
                        readded = True
                    call(s, 'add_key', key)
                elif op == 'del_key':
                    call(s, 'del_key', key)
                    deleted.add((s, i))
                elif op == 'set':
                    call(s, 'set', key, decode_val(arg))
                elif op == 'get':
                    call(s, 'get', key)
                elif op == 'iterate':
                    list(call(s, 'iterate'))
                elif op == 'walk':
                    if self._walk(out, stores[s], s, arg, call, deleted):
                        return
                elif op == 'add_map':
                    call(s, 'add_map', key, decode_key(arg))
                elif op == 'get_map':
                    call(s, 'get_map', key, decode_key(arg))
                elif op == 'iterate_map':
                    list(call(s, 'iterate_map', key))
            except Exception as e:          # noqa: BLE001
                out.fail('store-raised-on-allowed-call', op=[s, op, i, arg], position=n, error=repr(e))
                return
            # isolation across states: re-read everything everywhere
            for st in stores:
                st.verify_all(('other-state-op', op, i))
                out.observed['slot_rereads'] += len(st.m)
            maxlive = max(maxlive, sum(len(st.m) for st in stores))
        if maxlive >= 3 and readded:
            out.nontrivial = True

    def _walk(self, out, st, s, plan, call, deleted):
        """iterate() consumed one step at a time with other calls in between.  Judged: every slot that is live and
        untouched from the first to the last step is enumerated exactly once, with its value; nothing that was
        never live during the walk is enumerated; no key twice.  (What a walk shows of the slots that are changed
        while it runs is not specified and not judged.)"""
        from rxsci.state.memory_store import MemoryStore
        out.tags.append('stepwise-walk')
        abandon = None
        if isinstance(plan, dict):
            abandon, plan = plan['abandon_after'], plan['plan']
            out.tags.append('abandoned-walk')
        start = {i: (v[0], v[1]) for i, v in st.m.items()}
        ever_live = set(start)
        touched = set()
        it = MemoryStore.iterate(st)            # the real, lazy generator (the shadow's own iterate materialises a list)
        got = []
        step = 0
        done = False
        pending = list(plan)
        while True:
            while pending and (done or pending[0][0] <= step):
                _, sub, j, a = pending.pop(0)
                key = (j, (0,))
                touched.add(j)
                if sub == 'add_key':
                    ever_live.add(j)
                    call(s, 'add_key', key)
                elif sub == 'del_key':
                    call(s, 'del_key', key)
                    deleted.add((s, j))
                else:
                    call(s, 'set', key, decode_val(a))
            if done:
                break
            if abandon is not None and step >= abandon:
                done = True          # the generator is dropped here, unfinished
                continue
            try:
                got.append(next(it))
            except StopIteration:
                done = True
                if not pending:
                    break
            step += 1
        out.observed['walk_steps'] += len(got)
        keys = [g[0][0] for g in got]
        if len(set(keys)) != len(keys):
            out.fail('walk-enumerates-a-key-twice', keys=keys, plan=plan)
            return True
        ghost = [k for k in keys if k not in ever_live]
        if ghost:
            out.fail('walk-enumerates-a-slot-that-was-never-live', ghosts=ghost, plan=plan)
            return True
        if abandon is not None:
            return False        # nothing to judge in the partial walk itself: the complete iterate() that follows is checked by the shadow store
        for i, (is_set, v) in sorted(start.items()):
            if i in touched:
                continue
            hit = [g for g in got if g[0][0] == i]
            if not hit:
                out.fail('walk-misses-a-live-untouched-slot', index=i, enumerated=keys, live_at_start=sorted(start), touched_during_the_walk=sorted(touched), plan=plan)
                return True
            k, rv, rset = hit[0]
            if bool(rset) != is_set or (is_set and not shadow_store.same(st.data_type, v, shadow_store.coerce(st.data_type, rv))):
                out.fail('walk-shows-a-wrong-value-for-an-untouched-slot', index=i, want=repr((v, is_set)), got=repr((rv, rset)), plan=plan)
                return True
        out.observed['untouched_slots_checked_in_walks'] += len([i for i in start if i not in touched])
        return False

    def shrink(self, case):
        if case['kind'] == 'bigmap':
            return
        if case['kind'] != 'history':
            its = case['items']
            for k in range(len(its)):
                yield dict(case, items=its[:k] + its[k + 1:])
            return
        ops = case['ops']
        n = len(ops)
        step = max(1, n // 8)
        while step >= 1:
            for k in range(0, n, step):
                cand = ops[:k] + ops[k + step:]
                if valid_history(case['states'], cand):
                    yield dict(case, ops=cand)
            step //= 2


CHECK = C14()

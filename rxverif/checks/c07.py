"""C07 - time_split sessions respect active / inactive timeouts and closing items.

Events : create / item / completed of every window key at the head of time_split's inner pipeline,
         the items time_split received and its to_list output, in one real-time log.
Oracle : a 30-line transcription of the statement (model.time_windows): reference timestamp, expiry
         by >= ref + active or >= last + inactive, expiry has priority over the closing mapper, the
         closing item inside or outside by include_closing_item, the reference after a closing item
         is the closing item's timestamp.  Empty windows are dropped on both sides.
"""
import itertools

from ..common import Check, Outcome, bootstrap, interleave, with_prelude, with_reuse, prelude_tags, shrink_prelude, PRELUDE_TAGS, PRELUDE_RULE
from .. import windows, model

rs = bootstrap()


def expected_sessions(xs, cfg):
    out = []
    for w in model.time_windows(xs, cfg):
        if w['items']:
            out.append({'idx': list(w['idx']), 'close': w['close']})
    return out


def configs():
    for active in (None, 4):
        for inactive in (None, 2):
            for closing in (None, 'modeq:3:0'):
                for include in ((True, False) if closing else (True,)):
                    yield {'active': active, 'inactive': inactive, 'closing': closing, 'include': include}


class C07(Check):
    ID = 'C07'
    LEVEL = 'exploration'
    BUDGET = {'quick': 75, 'thorough': 240}
    RULE = ('case = (configuration, timestamps, parent context). Box: EVERY gap sequence of length <= 5 (quick) / 6 (thorough) over the gap alphabet {0,1,2,3,4,5} '
            '(contains timeout-1, timeout, timeout+1 for active=4 and inactive=2) x start offset 0..2 x all 12 configurations (each timeout present/None, closing mapper '
            'present/None, include True/False); then random sequences up to 60 items with other timeouts, timestamps as int and as datetime/timedelta (a twelfth of the cases at day scale: timeouts of a day to a week, gaps of days to a year), under group_by '
            'with interleaved keys, in roll and in split. non-trivial = some key lifetime has >= 2 windows; distinct = hash of the case')
    RULE += PRELUDE_RULE
    ASSUMPTIONS = ['timestamps are non-decreasing per key; timeouts are >= 0 (a zero timeout makes every item open a new window, as the statement says)',
                   'closing_mapper returns a bool']
    ANCHORS = ['rxsci/data/time_split.py', 'rxsci/operators/multiplex.py']
    REQUIRED_TAGS = ['consumer-runs-a-pipeline-built-with-the-same-operator-object', 'top', 'group', 'active', 'inactive', 'no-timeout', 'closing', 'include', 'exclude', 'datetime', 'equal-timestamps', 'gap=timeout', 'day-scale', 'zero-timeout', 'aware-datetimes-mixed-offsets', 'no-timestamps-closing-mapper-only', 'closing-mapper-says-no-with-None-or-empty-string', 'include-flag-given-as-a-non-bool', 'sub-second-timeouts', 'naive-timestamps-across-a-daylight-saving-change'] + ['operator-object-used-in-two-pipelines'] + ['history-fed-more-than-the-judged-stream'] + PRELUDE_TAGS + ['prelude:overlap']
    REQUIRED_OBSERVED = ['child_lifetimes_checked', 'parent_lifetimes_checked', 'empty_windows_dropped']

    def generate(self, rng, tier, shard, nshards):
        return with_prelude(with_reuse(self._generate(rng, tier, shard, nshards)), rng, overlap=True)

    def _generate(self, rng, tier, shard, nshards):
        return interleave(self._box(tier, shard, nshards), self._random(rng, tier))

    def _box(self, tier, shard, nshards):
        m = 5 if tier == 'quick' else 6
        cfgs = list(configs())
        idx = 0
        for ln in range(0, m + 1):
            for gaps in itertools.product(range(6), repeat=ln):
                idx += 1
                if idx % nshards != shard:
                    continue
                if tier == 'quick' and ((ln == m and idx % 48) or (ln == m - 1 and idx % 3)):
                    continue
                t = idx % 3
                items = [t]
                for g in gaps:
                    t += g
                    items.append(t)
                for cfg in cfgs:
                    yield {'cfg': cfg, 'parent': 'top', 'parent_node': None, 'items': items}
        self.box_done = 1

    def _random(self, rng, tier):
        k = 1500 if tier == 'quick' else 10 ** 7
        names = ['group', 'top', 'roll', 'split', 'group']
        for j in range(k):
            name = names[j % len(names)]
            if j % 60 == 41:
                # naive timestamps on both sides of a daylight-saving change of the process time zone (progs sets one: the epoch of the
                # 'dt' mapper is noon of the day before the clocks go forward at 02:00), the elapsed time within an hour of a timeout: a
                # difference taken on local wall-clock instants is off by that hour
                a, b = [(3600, None), (None, 9000), (7200, 9000), (86400, None)][(j // 60) % 4]
                t0 = 13 * 3600 - rng.choice([0, 600, 1200])            # 01:00 or a little before, on the night of the change
                steps = [(a or b) + rng.choice([-3000, -600, 600, 2400, 3000]) for _ in range(rng.choice([1, 2, 3]))]
                items, t = [t0 - 1800, t0], t0
                for st in steps:
                    t += max(1, st)
                    items.append(t)
                yield {'cfg': {'active': a, 'inactive': b, 'closing': None, 'include': True, 'time': 'dt'}, 'parent': name, 'parent_node': windows.PARENTS[name](rng),
                       'items': items, 'dst': True}
                continue
            a = rng.choice([None, 3, 5, 8, 0]) if j % 7 == 3 else rng.choice([None, 3, 5, 8])
            b = rng.choice([None, 2, 3, 4, 0]) if j % 7 == 5 else rng.choice([None, 2, 3, 4])
            alpha = sorted({0, 1, 2, (a or 3) - 1, a or 3, (a or 3) + 1, (b or 2) - 1, b or 2, (b or 2) + 1})
            if j % 12 == 6:
                # day scale: timeouts of a day or more and gaps of days / years (timedelta.days matters)
                a = rng.choice([None, 3600, 86400, 90000, 604800])
                b = rng.choice([None, 3, 86400, 172800])
                alpha = [0, 1, 2, 3, 3599, 3600, 86399, 86400, 86401, 90000, 172800, 604800, 31536000, 31536003]
            t = rng.randint(0, 5)
            items = []
            for _ in range(rng.choice([0, 1, 4, 12, 30, 60])):
                t += rng.choice(alpha)
                items.append(t)
            cfg = {'active': a, 'inactive': b, 'closing': (None, 'modeq:3:0', 'modeq:2:1', 'true', 'modeq:7:0', 'modeqnone:3:0', 'modeqstr:4:1')[j % 7] if j % 3 else rng.choice([None, 'modeq:3:0', 'modeq:2:1', 'true', 'modeq:7:0']),
                   'include': rng.random() < 0.5, 'time': rng.choice(['id', 'dt', 'dtz'])}
            if cfg['active'] is None and cfg['inactive'] is None and cfg['closing'] and j % 2:
                cfg['time'] = 'tnone'
            if cfg['closing'] and rng.random() < 0.15:
                cfg['include_as'] = rng.choice(['numpy', 'int'])
            if rng.random() < 0.12 and cfg['time'] in ('id', 'dt'):
                # sub-second timeouts on timestamps with a fractional second, gaps of exactly a timeout among them
                a_ms, b_ms = rng.choice([None, 200, 150, 400, 1200, 2]), rng.choice([None, 200, 150, 2, 20])
                step = rng.choice([1, 2, 20, 50])
                t_, its = rng.randint(0, 999), []
                for _ in range(rng.choice([4, 12, 30, 60])):
                    t_ += rng.choice([0, step, step, a_ms or step, b_ms or step, (a_ms or 1) - 1, (b_ms or 1) + 1])
                    its.append(t_)
                cfg.update(active=a_ms, inactive=b_ms, time='dtms')
                items = its
            yield {'cfg': cfg, 'parent': name, 'parent_node': windows.PARENTS[name](rng), 'items': items}

    def evaluate(self, case):
        out = Outcome()
        items, cfg = case['items'], case['cfg']
        out.tags.append(case['parent'])
        if cfg['active'] is not None:
            out.tags.append('active')
        if cfg['inactive'] is not None:
            out.tags.append('inactive')
        if cfg['active'] is None and cfg['inactive'] is None:
            out.tags.append('no-timeout')
        if cfg['active'] == 0 or cfg['inactive'] == 0:
            out.tags.append('zero-timeout')       # a timeout of zero is not 'no timeout': every item opens its own window
        if cfg['closing']:
            out.tags += ['closing', 'include' if cfg['include'] else 'exclude']
        if cfg['closing'] and cfg['closing'].startswith(('modeqnone', 'modeqstr')):
            out.tags.append('closing-mapper-says-no-with-None-or-empty-string')
        if cfg.get('include_as') and cfg.get('closing'):
            out.tags.append('include-flag-given-as-a-non-bool')
        if case.get('dst'):
            out.tags.append('naive-timestamps-across-a-daylight-saving-change')
        if cfg.get('time') == 'dtms':
            out.tags += ['datetime', 'sub-second-timeouts']
        if cfg.get('time') == 'tnone':
            out.tags.append('no-timestamps-closing-mapper-only')
        if cfg.get('time') == 'dtz':
            out.tags.append('aware-datetimes-mixed-offsets')
        if cfg.get('time') in ('dt', 'dtz'):
            out.tags.append('datetime')
        if (cfg['active'] or 0) >= 86400 or (cfg['inactive'] or 0) >= 86400 or (items and items[-1] - items[0] >= 86400):
            out.tags.append('day-scale')
        gaps = [b - a for a, b in zip(items, items[1:])]
        if 0 in gaps:
            out.tags.append('equal-timestamps')
        if (cfg['active'] in gaps) or (cfg['inactive'] in gaps):
            out.tags.append('gap=timeout')
        if case.get('reuse'):
            out.tags.append('operator-object-used-in-two-pipelines')
        ob = windows.observe(case['parent_node'], ['time_split', cfg, None], items, prelude=case.get('prelude'), reuse=bool(case.get('reuse')))
        prelude_tags(case, out)
        if ob.snap.err is not None or not ob.snap.done:
            return out.fail('time_split:stream-error', error=repr(ob.snap.err), done=ob.snap.done)
        if ob.odd or ob.orphans:
            return out.fail('time_split:events-outside-a-window-lifetime', odd=[repr(o) for o in ob.odd[:5]],
                            orphans=[repr(c.key) for c in ob.orphans[:5]])
        if ob.monitor.violations:
            return out.fail('time_split:mux-protocol-violated', violations=ob.monitor.violations[:3])
        for p in ob.parents:
            if any(b < a for a, b in zip(p.xs, p.xs[1:])):
                out.discarded = 'decreasing timestamps inside a parent key (outside the domain)'
                return out
            exp = expected_sessions(p.xs, cfg)
            out.observed['parent_lifetimes_checked'] += 1
            out.observed['empty_windows_dropped'] += sum(1 for c in p.children if not c.items)
            if len(exp) >= 2:
                out.nontrivial = True
            if cfg.get('include_as') and cfg.get('closing'):
                # the flag is a truthy / falsy value that is not the object True / False: which of the two placements of the closing
                # item it selects is not stated (the unchanged tree reads `is True`); that every item goes to exactly one window,
                # in order, cut as ONE of the two placements prescribes, is
                trials = []
                for inc in (True, False):
                    t = Outcome()
                    windows.check_partition(t, ob, p, expected_sessions(p.xs, dict(cfg, include=inc)), 'time_split', allow_empty_children=True)
                    trials.append(t)
                out.observed['flag_given_as_non_bool:partitions_judged'] += 1
                if all(t.failures for t in trials):
                    f = trials[0].failures[0]
                    return out.fail(f['kind'] + ':under-either-placement-of-the-closing-item', cfg=cfg, **{k_: v_ for k_, v_ in f['detail'].items() if k_ != 'cfg'})
                for k_, v_ in trials[0 if not trials[0].failures else 1].observed.items():
                    out.observed[k_] += v_
                continue
            if windows.check_partition(out, ob, p, exp, 'time_split', allow_empty_children=True):
                out.failures[-1]['detail']['cfg'] = cfg
                return out
        out.observed['events_logged'] += len(ob.log)
        if case['parent'] == 'top' and len(items) <= 150 and not out.failures:
            out.tags.append('consumer-runs-a-pipeline-built-with-the-same-operator-object')
            windows.nested_consumer(['time_split', cfg, None], items, items[:(len(items) * 2) // 3 + 1], out, 'time_split')
        return out

    box_done = 0

    def extra_evidence(self):
        return {'shards_that_enumerated_their_part_of_the_box_completely': self.box_done}

    def shrink(self, case):
        yield from shrink_prelude(case)
        items = case['items']
        for k in range(len(items)):
            yield dict(case, items=items[:k] + items[k + 1:])
        if case['parent'] != 'top':
            yield dict(case, parent='top', parent_node=None)
        cfg = case['cfg']
        for key in ('active', 'inactive', 'closing'):
            if cfg.get(key) is not None:
                yield dict(case, cfg=dict(cfg, **{key: None}))


CHECK = C07()

"""C01 - multiplexing is transparent: keyed execution equals per-group plain execution.

Events : (a) the items delivered to a snapshotting subscriber of rx.from_(items of group g).pipe(*P) - the
         PLAIN code path of every operator; (b) the OnNextMux items at a tap appended to P inside
         with_memory_store([group_by(key, [tap_head] + P + [tap_tail])]), bucketed by group: the head tap
         tells which group each inner key serves (read off the items it receives), so the bucketing does
         not assume how key indices are allocated.  Also P under a bare multiplex (one key) and P inside
         roll / split windows (each window lifetime vs the plain path on that window's items).
Oracle : sequence equality per group (type aware: list vs tuple vs array, int vs float; NaN aware).  Both
         sides are real executions; the reference model is only consulted to apply the stated
         preconditions (first / last / mean(reduce) on an empty group).
"""
import random

from ..common import Check, Outcome, bootstrap, norm, with_prelude, prelude_tags, shrink_prelude, PRELUDE_TAGS, PRELUDE_RULE
from .. import gen, progs, model
from ..muxmon import lifetimes

rs = bootstrap()

DUAL = ['map', 'starmap', 'filter', 'flat_map', 'scan', 'count', 'sum', 'mean', 'min', 'max', 'variance', 'stddev', 'fvariance', 'fstddev',
        'first', 'last', 'take', 'to_list', 'to_array', 'duc', 'clip', 'fill_none', 'batch', 'identity', 'do_action', 'assert_', 'assert_1',
        'progress', 'tee_map']


class C01(Check):
    ID = 'C01'
    LEVEL = 'exploration'
    BUDGET = {'quick': 75, 'thorough': 240}
    RULE = ('case = (pipeline P of 1..6 operators from the 29 dual-mode operators - tee_map with 2-4 branches in its three join modes, nested once -, keyed input: 1..8 groups '
            '(occasionally 50; every 150th case at scale: 300 groups, or groups of 400-800 items with take/batch parameters of 257+) of 0..40 items each, interleaving shape round-robin / blocks / reversed blocks / random / singletons-first; mode group_by, bare multiplex, or '
            'inside roll / split windows). Predicates return bool in the main class; a separate class uses predicates returning truthy non-bool values. '
            'non-trivial = >= 2 groups (or window lifetimes), >= 2 operators and some group emits an item; distinct = hash of the case')
    RULE += PRELUDE_RULE
    ASSUMPTIONS = ['preconditions of the statement, applied by the generator and counted: accumulators return the seed\'s type; first / last / mean(reduce) are not applied to an empty group '
                   '(decided by the reference model, never by "the plain run raised"); inside a tee branch no completion-triggered operator after take/first, transitively through nested tee_maps',
                   'no streaming scan that mutates and re-emits its accumulator object: an operator that retains the object (to_list, a tee join) shows its later mutations, and since take/first do not end a multiplexed key early the accumulator keeps being mutated there (reducing forms are used instead; C09 checks the streaming form with snapshots)',
                   'assert_ / assert_1 predicates hold (a failing assert stops the whole stream, which truncates the other groups)']
    ANCHORS = ['rxsci/operators/multiplex.py', 'rxsci/operators/group_by.py', 'rxsci/state/with_store.py', 'rxsci/operators/scan.py', 'rxsci/operators/map.py',
               'rxsci/operators/filter.py', 'rxsci/operators/first.py', 'rxsci/operators/last.py', 'rxsci/operators/take.py', 'rxsci/operators/tee_map.py',
               'rxsci/operators/flat_map.py', 'rxsci/operators/do_action.py', 'rxsci/operators/assert_.py', 'rxsci/operators/progress.py',
               'rxsci/operators/distinct_until_changed.py', 'rxsci/data/batch.py', 'rxsci/data/clip.py', 'rxsci/data/fill_none.py', 'rxsci/data/to_list.py', 'rxsci/data/to_array.py']
    REQUIRED_TAGS = DUAL + ['group-ends-with-equal-items-of-different-classes', 'zip', 'merge', 'combine_latest', 'group', 'multiplex', 'roll', 'split', 'len>=3', 'truthy-predicates', 'many-groups', 'scale', 'assert-fails', 'seed-factory-whose-product-holds-an-identity', 'ints-beyond-2**31-within-64-bits', 'items-that-are-lazy-iterables-without-len'] + PRELUDE_TAGS
    REQUIRED_OBSERVED = ['groups_compared', 'items_compared']

    def generate(self, rng, tier, shard, nshards):
        return with_prelude(self._generate(rng, tier, shard, nshards), rng, size=lambda c: sum(len(x) for x in c['seqs']))

    def _generate(self, rng, tier, shard, nshards):
        n = 4500 if tier == 'quick' else 10 ** 7
        modes = ['group', 'group', 'group', 'multiplex', 'roll', 'split']
        for k in range(n):
            if k % 25 == 12:
                # failing assertions (separate sub-mode: a failed assert stops the WHOLE multiplexed stream, so the oracle is
                # weaker by necessity - same error as the plain run of the group that fails first, other groups a prefix)
                pre = rng.choice([[], [['map', 'add:%d' % rng.randint(0, 3)]], [['filter', 'modne:%d:0' % rng.randint(2, 4)]], [['map', 'mod:%d' % rng.randint(3, 9)]]])
                a = rng.choice([['assert_', 'lt:%d' % rng.randint(4, 14)], ['assert_1', 'le2'], ['assert_1', 'le2']])
                post = rng.choice([[], [['map', 'mul:2']], [['identity']]])
                ng = rng.randint(1, 4)
                seqs = []
                for _ in range(ng):
                    xs = sorted(rng.randint(0, 9) for _ in range(rng.randint(0, 10)))
                    if xs and rng.random() < 0.7:
                        xs.insert(rng.randint(0, len(xs)), rng.choice([0, 3, 20]))     # a descent or a too-large value somewhere
                    seqs.append(xs)
                yield {'prog': pre + [a] + post, 'mode': 'assert-fail', 'seqs': seqs, 'shape': rng.choice(gen.INTERLEAVINGS),
                       'iseed': rng.randrange(1 << 30), 'truthy': False}
                continue
            if k % 50 == 33:
                # integers beyond 2**31 that still fit 64 bits (epoch milliseconds, byte totals beyond 2 GiB): what a plain Python
                # int holds, an int-typed per-key state must hold too
                base = rng.choice([2 ** 31, 2 ** 32 + 5, 1_700_000_000_000, 2 ** 45])
                red = rng.random() < 0.5
                prog = rng.choice([
                    [['scan', 'acc_max', 'zero', False, None]],
                    [['scan', 'acc_add', 'zero', red, None]],
                    [['sum', red]], [['max', red]], [['min', red]],
                    [['map', 'add:3'], ['scan', 'acc_add', 'zero', False, None], ['take', 3]],
                    [['tee_map', 'zip', [[['scan', 'acc_max', 'zero', False, None]], [['count', False]]]]],
                    [['distinct_until_changed', None], ['last']] if False else [['scan', 'acc_max', 'neg1', red, None]],
                ])
                mode = modes[(k // 50) % len(modes)]
                ng = rng.choice([1, 2, 3]) if mode == 'group' else 1
                case = {'prog': prog, 'mode': mode, 'seqs': [[base + rng.randint(0, 10 ** 6) for _ in range(rng.choice([1, 2, 5, 12]))] for _ in range(ng)],
                        'shape': rng.choice(gen.INTERLEAVINGS), 'iseed': rng.randrange(1 << 30), 'truthy': False, 'bigints': True}
                if mode == 'roll':
                    case['ctx'] = ['roll', rng.randint(1, 5), rng.randint(1, 5), None]
                elif mode == 'split':
                    case['ctx'] = ['split', 'div:%d' % rng.randint(2, 5), None]
                yield case
                continue
            if k % 50 == 41:
                # a group that ENDS with a run of items that are equal under == and still different objects of different classes (a str
                # next to a str subclass, a tuple next to a namedtuple, a bool next to a numpy.bool_): the multiplexed path must hand
                # on the very item the plain path hands on, not an equal one it saw earlier
                kk = rng.choice([2, 4, 6])
                form = rng.randrange(3)           # _CLS_FORMS[k % 3]: with an even k the form is k % 3
                kk = [6, 4, 2][form]
                prog = rng.choice([
                    [['map', 'divcls:%d' % kk], ['last']],
                    [['map', 'divcls:%d' % kk], ['identity'], ['last']],
                    [['filter', 'modne:7:6'], ['map', 'divcls:%d' % kk], ['last']],
                    [['map', 'divcls:%d' % kk], ['take', rng.choice([2, 3, 5, 50])], ['last']],
                    [['map', 'divcls:%d' % kk], ['first']],
                ])
                mode = modes[(k // 50) % len(modes)]
                ng = rng.choice([1, 2, 3]) if mode == 'group' else 1
                seqs = []
                for _ in range(ng):
                    xs = [rng.randint(0, 12) for _ in range(rng.choice([0, 1, 3, 6]))]
                    m = rng.randint(0, 5) * kk
                    xs += [m + j for j in range(rng.choice([2, 2, 3, kk]))][:kk]        # consecutive ints with one quotient: equal, alternating classes
                    seqs.append(xs)
                case = {'prog': prog, 'mode': mode, 'seqs': seqs, 'shape': rng.choice(gen.INTERLEAVINGS), 'iseed': rng.randrange(1 << 30),
                        'truthy': False, 'equal_tail': True}
                if mode == 'roll':
                    case['ctx'] = ['roll', rng.randint(2, 5), rng.randint(1, 5), None]
                elif mode == 'split':
                    case['ctx'] = ['split', 'div:%d' % (kk * rng.randint(1, 3)), None]
                yield case
                continue
            if k % 50 == 17:
                # items that are lazy one-shot iterables without len() - a generator, a zip, a map object - in front of flat_map
                red = rng.random() < 0.5
                prog = rng.choice([
                    [['map', 'genup:%d' % rng.randint(2, 5)], ['flat_map']],
                    [['map', 'zipit:%d' % rng.randint(2, 4)], ['flat_map'], ['map', 't0']],
                    [['map', 'mapit:%d' % rng.randint(2, 5)], ['flat_map'], ['scan', 'acc_add', 'zero', red, None]],
                    [['filter', 'modne:3:0'], ['map', 'genup:3'], ['flat_map'], ['count', red]],
                ])
                mode = modes[(k // 50) % len(modes)]
                ng = rng.choice([1, 2, 3]) if mode == 'group' else 1
                case = {'prog': prog, 'mode': mode, 'seqs': [[rng.randint(0, 12) for _ in range(rng.choice([0, 1, 3, 8]))] for _ in range(ng)],
                        'shape': rng.choice(gen.INTERLEAVINGS), 'iseed': rng.randrange(1 << 30), 'truthy': False, 'lazy': True}
                if mode == 'roll':
                    case['ctx'] = ['roll', rng.randint(1, 5), rng.randint(1, 5), None]
                elif mode == 'split':
                    case['ctx'] = ['split', 'div:%d' % rng.randint(2, 5), None]
                yield case
                continue
            truthy = (k % 10 == 9) if (k // 10) % 2 else (k % 10 == 4)      # (k % 10 == 9 alone is always odd: never the 'roll' turn of k % 6)
            scale = (k % 150 == 7)
            opts = gen.GenOpts(dual_only=True, max_depth=2 if not scale else 1, truthy_predicates=truthy, tee_weight=3, no_streaming_mutation=True,
                               scale=scale, exclude_ops=('fvariance', 'fstddev') if scale else ())
            prog, _ = gen.gen_pipeline(rng, 'i', rng.randint(1, 6), opts)
            if scale:
                # make sure a size-sensitive operator with a parameter beyond the small-int cache is in the pipeline
                big = rng.choice([['take', 300], ['take', 257], ['batch', 257], ['batch', 300], ['take', 1000]])
                head, _ = gen.gen_pipeline(rng, 'i', rng.randint(0, 1), gen.GenOpts(dual_only=True, max_depth=0, only_ops={'map', 'filter', 'identity', 'clip'}))
                head = [nd for nd in head if nd[0] != 'map' or nd[1].split(':')[0] in ('add', 'mod', 'mul', 'neg')]
                tail, _ = gen.gen_pipeline(rng, 'x' if big[0] == 'batch' else 'i', rng.randint(0, 2), opts)
                prog = head + [big] + tail
            mode = modes[k % len(modes)]
            ng = rng.choice([1, 2, 2, 3, 4, 8]) if k % 40 else 50
            if mode != 'group':
                ng = 1
            seqs = [[rng.randint(0, 12) for _ in range(rng.choice([0, 1, 2, 4, 8, 15, 40]))] for _ in range(ng)]
            if scale:
                # sizes beyond the small-int cache: long groups (take/batch 257+), or 300 groups (key indices > 255)
                if (k // 150) % 2 and mode == 'group':
                    seqs = [[rng.randint(0, 12) for _ in range(rng.choice([1, 2, 3]))] for _ in range(300)]
                else:
                    seqs = [[rng.randint(0, 500) for _ in range(rng.choice([400, 800]))] for _ in range(min(ng, 2))]
            case = {'prog': prog, 'mode': mode, 'seqs': seqs, 'shape': rng.choice(gen.INTERLEAVINGS), 'iseed': rng.randrange(1 << 30),
                    'truthy': truthy}
            if mode == 'roll':
                case['ctx'] = ['roll', rng.randint(1, 5), rng.randint(1, 5), None]
            elif mode == 'split':
                case['ctx'] = ['split', 'div:%d' % rng.randint(2, 5), None]
            yield case

    # ------------------------------------------------------------------
    def _plain(self, prog, items, out, cache, second=False):
        """-> Snap of the plain path, or None when the case is outside the preconditions"""
        try:
            model.run(prog, items, plain=True)
        except model.Discard as d:
            out.discarded = 'precondition: ' + str(d)
            return None
        except Exception as e:          # noqa: BLE001 - the model cannot decide this program: do not guess
            out.discarded = 'model cannot decide the precondition: ' + type(e).__name__
            return None
        # The operator chain is built ONCE per program and re-used for every group: rxsci operators are
        # factories applied to a source, and re-subscribing the same chain must not share state (seeds).
        if id(prog) not in cache:
            cache[id(prog)] = (prog, progs.build(prog))       # keeps `prog` alive, so the id stays unique
        ops_ = cache[id(prog)][1]
        import rx
        from ..common import Snap, subscribe
        obs = rx.from_(items).pipe(*ops_) if ops_ else rx.from_(items)
        first = subscribe(obs, Snap())
        if second:
            # the reference for "the same multiplexed observable subscribed again" is the same PLAIN observable
            # subscribed again (a tee_map pipeline publishes its source: once run, either form only completes)
            return subscribe(obs, Snap())
        return first


    def evaluate(self, case):
        out = Outcome()
        prog, mode, seqs = case['prog'], case['mode'], case['seqs']
        names = progs.op_names(prog)
        out.tags += sorted(set(names)) + [mode]
        for _, nd in progs.walk(prog):
            if nd[0] == 'tee_map':
                out.tags.append(nd[1])
            if nd[0] == 'scan' and nd[2] == 'sentinel_factory':
                out.tags.append('seed-factory-whose-product-holds-an-identity')
        if len(prog) >= 3:
            out.tags.append('len>=3')
        if case.get('lazy'):
            out.tags.append('items-that-are-lazy-iterables-without-len')
        if case.get('equal_tail'):
            out.tags.append('group-ends-with-equal-items-of-different-classes')
        if case.get('bigints'):
            out.tags.append('ints-beyond-2**31-within-64-bits')
        if case.get('truthy'):
            out.tags.append('truthy-predicates')
        if len(seqs) >= 20:
            out.tags.append('many-groups')
        if len(seqs) >= 257 or any(len(x) >= 300 for x in seqs):
            out.tags.append('scale')
        mech = None
        if case.get('truthy') and any(nd[0] == 'filter' and nd[1].startswith('modtruthy') for _, nd in progs.walk(prog)):
            mech = 'filter-mux-truthy-predicate'

        if mode == 'assert-fail':
            return self._eval_assert_fail(case, out)
        if case.get('prelude') and progs.usable_prelude(prog, case['prelude']):
            prelude_tags(dict(case, prelude=progs.usable_prelude(prog, case['prelude'])), out)
        if mode == 'group':
            M = 64 if len(seqs) <= 64 else 512
            r = random.Random(case['iseed'])
            pairs = gen.interleave_keys(r, seqs, case['shape'])
            items = [v * M + g for g, v in pairs]
            P = [['map', 'div:%d' % M]] + prog         # the same decoding prefix on both sides
            lifetimes_in = [(g, [v * M + g for v in xs]) for g, xs in enumerate(seqs) if xs]
            head, tail = [], []
            snap = progs.run_mux([['group_by', 'mod:%d' % M, P]], items, taps={(0,): (head, tail)}, prelude=case.get('prelude'))
            group_of = {e[1]: e[2] % M for e in head if e[0] == 'N'}
            got = {}
            for e in tail:
                if e[0] == 'N':
                    got.setdefault(group_of.get(e[1], repr(e[1])), []).append(e[2])
            units = [(g, P, enc, got.get(g, [])) for g, enc in lifetimes_in]
        elif mode == 'multiplex':
            items = list(seqs[0])
            from ..common import Snap
            # The same multiplexed observable subscribed a second time owes the same events (per-key state belongs
            # to the subscription).  Not asked of pipelines holding a tee_map: it publishes its source (RxPY
            # publish()/connect()), so once run, the plain form and the multiplexed form alike only complete.
            again = Snap() if 'tee_map' not in names else None
            snap = progs.run_mux(prog, items, again=again, prelude=case.get('prelude'))
            units = [(0, prog, items, snap.out)]
            if again is not None:
                units.append(('second subscription of the same observable', prog, items, again.out))
                out.observed['second_subscriptions_of_one_observable'] += 1
                if (again.err is None) != (snap.err is None) or again.done != snap.done:
                    return out.fail('second-subscription-of-the-same-observable-ends-differently', first=[repr(snap.err), snap.done],
                                    second=[repr(again.err), again.done])
        else:
            items = list(seqs[0])
            node = list(case['ctx'])
            node[-1] = prog
            head, tail = [], []
            snap = progs.run_mux([node], items, taps={(0,): (head, tail)}, prelude=case.get('prelude'))
            hl, odd1 = lifetimes(head)
            tl, odd2 = lifetimes(tail)
            if snap.err is None and (odd1 or odd2 or len(hl) != len(tl)):
                return out.fail('window-lifetimes-do-not-pair-up', odd=[repr(o) for o in (odd1 + odd2)[:4]], n_head=len(hl), n_tail=len(tl))
            bykey, seen = {}, {}
            for lt in tl:
                bykey.setdefault(lt.key, []).append(lt)
            units = []
            for j, lt in enumerate(hl):
                i = seen.get(lt.key, 0)
                seen[lt.key] = i + 1
                ts = bykey.get(lt.key, [])
                units.append((j, prog, lt.items, ts[i].items if i < len(ts) else []))

        plains = []
        cache = {}
        for g, P, its, mux_out in units:
            s = self._plain(P, its, out, cache, second=(g == 'second subscription of the same observable'))
            if s is None:
                return out
            plains.append(s)
        if snap.err is not None or not snap.done:
            return out.fail('multiplexed-run-errored-where-the-plain-runs-are-in-domain', mech=mech if mech else None, error=repr(snap.err), done=snap.done)
        emitted = False
        for (g, P, its, mux_out), s in zip(units, plains):
            if s.err is not None or not s.done:
                return out.fail('plain-run-errored-inside-the-domain', error=repr(s.err), group=g, items=its[:30])
            out.observed['groups_compared'] += 1
            out.observed['items_compared'] += len(s.out)
            if s.out:
                emitted = True
            if norm(s.out) != norm(mux_out):
                k = next((i for i, (a, b) in enumerate(zip(s.out, mux_out)) if norm(a) != norm(b)), min(len(s.out), len(mux_out)))
                return out.fail('multiplexed-output-differs-from-plain-output', mech=mech, group=g, group_items=its[:40], first_difference=k,
                                plain=s.out[max(0, k - 1):k + 3], mux=mux_out[max(0, k - 1):k + 3], n_plain=len(s.out), n_mux=len(mux_out))
        if len(units) >= 2 and units[1][0] != 'second subscription of the same observable' and len(prog) >= 2 and emitted:
            out.nontrivial = True
        return out

    def _eval_assert_fail(self, case, out):
        prog, seqs = case['prog'], case['seqs']
        M = 64
        r = random.Random(case['iseed'])
        pairs = gen.interleave_keys(r, seqs, case['shape'])
        items = [v * M + g for g, v in pairs]
        P = [['map', 'div:%d' % M]] + prog
        head, tail = [], []
        snap = progs.run_mux([['group_by', 'mod:%d' % M, P]], items, taps={(0,): (head, tail)})
        group_of = {e[1]: e[2] % M for e in head if e[0] == 'N'}
        got = {}
        for e in tail:
            if e[0] == 'N':
                got.setdefault(group_of.get(e[1], repr(e[1])), []).append(e[2])
        # plain runs of every group; which of them fail, and at which of their items
        cache = {}
        plains, fail_pos = {}, {}
        for g, xs in enumerate(seqs):
            if not xs:
                continue
            enc = [v * M + g for v in xs]
            ops_ = cache.setdefault('ops', progs.build(P))
            import rx
            from ..common import Snap, subscribe
            seen = []
            s = subscribe(rx.from_(enc).pipe(rs.ops.do_action(on_next=seen.append), *ops_), Snap())
            plains[g] = s
            if s.err is not None:
                fail_pos[g] = len(seen) - 1            # index (within the group) of the item that made the plain run fail
        out.observed['groups_compared'] += len(plains)
        # first failing item in the interleaved order
        counts = {}
        first = None
        for g, v in pairs:
            i = counts.get(g, 0)
            counts[g] = i + 1
            if g in fail_pos and fail_pos[g] == i:
                first = (g, dict(counts))
                break
        if first is None:
            if snap.err is not None or not snap.done:
                return out.fail('assert:multiplexed-stream-failed-although-no-group-fails-alone', error=repr(snap.err))
            for g, s in plains.items():
                if norm(s.out) != norm(got.get(g, [])):
                    return out.fail('multiplexed-output-differs-from-plain-output', group=g, plain=s.out[:20], mux=got.get(g, [])[:20])
            return out
        out.tags.append('assert-fails')
        g0, seen_counts = first
        want = plains[g0].err
        if snap.err is None:
            return out.fail('assert:multiplexed-stream-did-not-fail', failing_group=g0, plain_error=repr(want), mux_out=snap.out[:20])
        if type(snap.err) is not type(want) or str(snap.err) != str(want):
            return out.fail('assert:error-differs-from-the-plain-run-of-the-first-failing-group', mux=repr(snap.err), plain=repr(want), failing_group=g0)
        for g, s in plains.items():
            m = got.get(g, [])
            out.observed['items_compared'] += len(m)
            if norm(s.out[:len(m)]) != norm(m):
                return out.fail('assert:group-output-is-not-a-prefix-of-its-plain-output', group=g, plain=s.out[:20], mux=m[:20])
        if norm(got.get(g0, [])) != norm(plains[g0].out):
            return out.fail('assert:items-before-the-failing-item-were-lost', group=g0, plain=plains[g0].out[:20], mux=got.get(g0, [])[:20])
        if len(plains) >= 2:
            out.nontrivial = True
        return out

    def shrink(self, case):
        yield from shrink_prelude(case)
        from .c11 import shrink_prog
        for g, xs in enumerate(case['seqs']):
            for k in range(len(xs)):
                seqs = list(case['seqs'])
                seqs[g] = xs[:k] + xs[k + 1:]
                yield dict(case, seqs=seqs)
        if len(case['seqs']) > 1:
            for g in range(len(case['seqs'])):
                yield dict(case, seqs=case['seqs'][:g] + case['seqs'][g + 1:])
        for c in shrink_prog(case):
            if c['prog'] and progs.well_typed(c['prog']) is not None and self._tee_rule_ok(c['prog']):
                yield c

    @staticmethod
    def _tee_rule_ok(prog, in_tee=False, after=False):
        """shrinking must not create a completion-triggered operator after take/first inside a tee branch"""
        for n in prog:
            if n[0] == 'tee_map':
                any_take = False
                for b in n[2]:
                    if not C01._tee_rule_ok(b, True, after if in_tee else False):
                        return False
                    any_take = any_take or any(x[0] in ('take', 'first') for _, x in progs.walk(b))
                if in_tee and any_take:
                    after = True
            elif n[0] in ('take', 'first'):
                after = True
            elif in_tee and after and progs.has_flag(n, 'completion'):
                return False
        return True


CHECK = C01()

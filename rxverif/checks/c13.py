"""C13 - item-level errors on multiplexed streams are isolated and routable.

Faults : the user function of map / starmap / filter / scan raises Boom(item) for a chosen subset F of
         the source items - EVERY subset for short inputs, random subsets for longer ones.
Events : (H) events in front of the failing operator, (A) events right behind it, the main output, the
         dead-letter observable (items, completions), on_error of the final subscriber.
Oracle : behind the failing operator exactly one OnErrorMux per failing item, for that item's key, while
         that item is processed, and all other items as in the run on the input without F; with ignore()
         the main output == the fault-free run on input \\ F; with error.map(g) == the fault-free run in
         which each failing item is replaced in place by g(error); with the router: main output as for
         ignore, dead letters == the exceptions in source order, the dead letter completes exactly once,
         with the stream; without handler: on_error(first exception) and the items before it are a prefix
         of the fault-free run.
"""
import itertools
import random

import rx

from ..common import Check, Outcome, Snap, subscribe, bootstrap, norm, interleave
from ..muxmon import ttap
from ..progs import Boom, boom_for

rs = bootstrap()

FAIL_OPS = ['map', 'map_exc_values', 'starmap', 'filter', 'scan', 'scan_reduce', 'scan_list', 'sum_km', 'mean_km', 'variance_km', 'max_km', 'stddev_km', 'fvariance_km']
AGG = {'sum_km': lambda **kw: rs.math.sum(**kw), 'mean_km': lambda **kw: rs.math.mean(**kw), 'variance_km': lambda **kw: rs.math.variance(**kw),
       'max_km': lambda **kw: rs.math.max(**kw), 'stddev_km': lambda **kw: rs.math.stddev(**kw), 'fvariance_km': lambda **kw: rs.math.formal.variance(**kw)}
DRIVES = ['cold', 'cold', 'hot_errors_first', 'hot_data_first']
# operators of the scale cases: the ones whose state shows a lost / zeroed slot come round most often
SCALE_OPS = ['scan_list', 'map', 'scan', 'scan_list', 'filter', 'scan_reduce', 'scan_list', 'starmap', 'variance_km', 'scan_list', 'sum_km', 'mean_km',
             'scan_list', 'max_km', 'stddev_km']
HANDLERS = ['ignore', 'error_map', 'router', 'none']
DOWNSTREAM = ['none', 'running_sum', 'distinct', 'lag', 'count']


def g_err(e):
    """the error.map mapper: turns the exception into an item"""
    k = e.item if isinstance(e.item, int) else e.item[1]
    if k % 5 == 3:
        return None             # None is a legitimate replacement item, not "nothing to emit"
    if k % 5 == 4:
        return 0                # ... and so is a falsy one
    return 1000 + k


def item_id(x):
    return x if isinstance(x, int) else x[1]


def fail_op(kind, F, mode):
    """mode 'faulty'   : raises Boom(item) for item ids in F
            'absent'   : the plain operator (used on input without F)
            'replaced' : fault-free operator sequence whose effect is 'failing item replaced in place by g(error)'"""
    def chk(x):
        if mode == 'faulty' and item_id(x) in F:
            raise boom_for(item_id(x), x)
    inF = lambda x: item_id(x) in F                            # noqa: E731
    if kind == 'map_exc_values':
        # the mapper RETURNS exception instances (a failure log being reprocessed, errors kept inline as items): a returned
        # exception is a value, only a raised one is an error
        def fv(x):
            chk(x)
            return ValueError('value %d' % x) if x % 3 == 1 else KeyError(x) if x % 3 == 2 else x
        if mode == 'replaced':
            return [rs.ops.map(lambda x: g_err(Boom(x)) if inF(x) else (ValueError('value %d' % x) if x % 3 == 1 else KeyError(x) if x % 3 == 2 else x))]
        return [rs.ops.map(fv)]
    if kind == 'map':
        def f(x):
            chk(x)
            return x * 2 + 1
        if mode == 'replaced':
            return [rs.ops.map(lambda x: g_err(Boom(x)) if inF(x) else x * 2 + 1)]
        return [rs.ops.map(f)]
    if kind == 'starmap':
        def f(a, b):
            chk((a, b))
            return a + 3 * b
        if mode == 'replaced':
            return [rs.ops.starmap(lambda a, b: g_err(Boom((a, b))) if b in F else a + 3 * b)]
        return [rs.ops.starmap(f)]
    if kind == 'filter':
        def p(x):
            chk(x)
            return x % 3 != 0
        if mode == 'replaced':
            return [rs.ops.filter(lambda x: inF(x) or x % 3 != 0), rs.ops.map(lambda x: g_err(Boom(x)) if inF(x) else x)]
        return [rs.ops.filter(p)]
    if kind in AGG:
        # an aggregate defined through scan whose key_mapper - the user's function inside its accumulator - raises
        # on a dirty record: the record must not leave a trace in the running aggregate (count, mean weights ...)
        def km(x):
            chk(x)
            return x * 1.5 - 4
        if mode == 'replaced':
            return [rs.ops.tee_map(rx.pipe(rs.ops.filter(inF), rs.ops.map(lambda x: g_err(Boom(x)))),
                                   rx.pipe(rs.ops.filter(lambda x: not inF(x)), AGG[kind](key_mapper=lambda x: x * 1.5 - 4), rs.ops.map(_r9)),
                                   join='merge')]
        return [AGG[kind](key_mapper=km), rs.ops.map(_r9)]
    if kind == 'scan_list':
        # a list-valued fold with a non-empty seed: a state slot that silently reads 0 instead of "not set" is visible
        def accl(a, x):
            chk(x)
            return a + [x]
        if mode == 'replaced':
            return [rs.ops.scan(lambda s, x: (s[0], g_err(Boom(x))) if inF(x) else (s[0] + [x], s[0] + [x]), ([-7], None)),
                    rs.ops.map(lambda s: s[1])]
        return [rs.ops.scan(accl, [-7])]
    reduce = kind == 'scan_reduce'

    def acc(a, x):
        chk(x)
        return a + x
    if mode == 'replaced':
        if reduce:
            # nothing is emitted per item; the mapped errors appear in place, the fold at completion
            return [rs.ops.tee_map(rx.pipe(rs.ops.filter(inF), rs.ops.map(lambda x: g_err(Boom(x)))),
                                   rx.pipe(rs.ops.filter(lambda x: not inF(x)), rs.ops.scan(lambda a, x: a + x, 0, reduce=True)),
                                   join='merge')]          # errors in place as items, the fold of the others at completion
        return [rs.ops.scan(lambda s, x: (s[0], g_err(Boom(x))) if inF(x) else (s[0] + x, s[0] + x), (0, 0)),
                rs.ops.map(lambda s: s[1])]
    return [rs.ops.scan(acc, 0, reduce=reduce)]


def _r9(v):
    """floats to 9 significant digits, as ints where integral (the downstream operators of this check work on ints)"""
    if isinstance(v, float):
        return int(round(v * 1000))
    return v


def downstream(kind, listy=False):
    if listy == 'exc':
        # the failing operator emits exception instances as values: turn them into ints first
        return [rs.ops.map(lambda v: v if (v is None or isinstance(v, int)) else 500 + len(str(v)))] + downstream(kind)
    if listy:
        # the failing operator emits lists (scan_list): reduce them to ints first
        return [rs.ops.map(lambda v: v if (v is None or isinstance(v, int)) else sum(v) + 31 * len(v))] + downstream(kind)
    nn = lambda x: -1 if x is None else x                      # noqa: E731  (error.map may put None on the item path)
    if kind == 'running_sum':
        return [rs.ops.scan(lambda a, x: a + nn(x), 0)]
    if kind == 'distinct':
        return [rs.ops.map(lambda x: nn(x) % 5), rs.ops.distinct()]
    if kind == 'lag':
        return [rs.data.lag(1), rs.ops.map(lambda t: nn(t[0]) * 100 + nn(t[1]))]
    if kind == 'count':
        return [rs.ops.count()]
    return []


class C13(Check):
    ID = 'C13'
    LEVEL = 'fault_enumeration'
    BUDGET = {'quick': 75, 'thorough': 240}
    RULE = ('case = (failing operator in map/starmap/filter/scan/scan(reduce), handler in ignore/error.map/router/none placed directly after it, stateful operator downstream '
            '(running sum, distinct, lag, count, none), context: one multiplexed key or group_by with 2-3 interleaved keys, input of n items, fault set F). Fault model: the user '
            'function raises on exactly the items of F. EVERY subset F of EVERY input of n <= 6 (quick) / 8 (thorough) items - first, last, consecutive, all items are among them - '
            'for every operator x handler, plus random subsets of inputs up to 40 items. non-trivial = >= 1 fault and >= 1 surviving item of the same key; distinct = hash of the case')
    ASSUMPTIONS = ['the handler is directly after the failing operator (as the statement requires); errors travelling through stateful operators are outside it',
                   'expected outputs come from fault-free executions of transformed pipelines (item absent / item replaced), i.e. the fault-free behaviour of map/filter/scan is trusted here and checked by C01/C09']
    ANCHORS = ['rxsci/operators/map.py', 'rxsci/operators/filter.py', 'rxsci/operators/scan.py', 'rxsci/operators/starmap.py',
               'rxsci/error/ignore.py', 'rxsci/error/map.py', 'rxsci/error/router.py', 'rxsci/operators/multiplex.py', 'rxsci/operators/group_by.py']
    REQUIRED_TAGS = ['op=' + o for o in FAIL_OPS] + ['handler=' + h for h in HANDLERS] + ['top', 'group', 'all-fail', 'first-fails', 'last-fails', 'consecutive', 'no-fault', 'over-64-keys', 'drive=cold', 'drive=hot_errors_first', 'drive=hot_data_first', 'no-handler-in-the-group-but-one-further-out']
    REQUIRED_OBSERVED = ['mux_errors_observed', 'dead_letters_compared', 'fatal_errors_observed', 'outputs_compared']

    def generate(self, rng, tier, shard, nshards):
        return interleave(self._box(tier, shard, nshards), self._random(rng, tier))

    def _box(self, tier, shard, nshards):
        m = 6 if tier == 'quick' else 8
        idx = 0
        for n in range(0, m + 1):
            for bits in range(1 << n):
                F = [i for i in range(n) if bits >> i & 1]
                for op in FAIL_OPS:
                    for h in HANDLERS:
                        idx += 1
                        if idx % nshards != shard:
                            continue
                        c = {'op': op, 'handler': h, 'down': DOWNSTREAM[idx % len(DOWNSTREAM)], 'ctx': 'group' if (idx // 7) % 2 else 'top',
                             'ngroups': 2 + idx % 2, 'n': n, 'F': F, 'perm_seed': idx, 'drive': DRIVES[(idx // 3) % len(DRIVES)]}
                        if h == 'none' and c['ctx'] == 'group' and (idx // 14) % 2:
                            # no handler inside the group, one FURTHER OUT in the parent pipeline (guarding another operator): the error is
                            # unhandled where the group is demultiplexed and surfaces as on_error there - the outer handler never sees it
                            c['outer_handler'] = ('ignore', 'error_map')[(idx // 28) % 2]
                        yield c
        self.box_done = 1

    def _random(self, rng, tier):
        k = 1500 if tier == 'quick' else 10 ** 7
        for j in range(k):
            if j % 100 == 5:
                # scale: 70-300 interleaved keys (state tables grow beyond their first blocks while some keys only ever failed)
                n = rng.choice([300, 700])
                ng = rng.choice([70, 130, 300])
                # (round-robin keys: item i is the FIRST item of key i for i < ng; the keys that open a new allocation block
                # of the state tables - 64, 128, 256 and their successors - are among those whose first item fails)
                F = sorted(set(range(0, n, rng.choice([3, 8]))) | set(rng.sample(range(n), 20)) | {i for i in (64, 65, 128, 129, 256, 257) if i < ng})
                yield {'op': SCALE_OPS[(j // 100) % len(SCALE_OPS)], 'handler': HANDLERS[(j // 500) % 3], 'down': rng.choice(DOWNSTREAM),
                       'ctx': 'group', 'ngroups': ng, 'n': n, 'F': F, 'perm_seed': rng.randrange(1 << 30), 'first_fail_per_key': True}
                continue
            n = rng.choice([8, 12, 20, 40])
            F = sorted(rng.sample(range(n), rng.choice([1, 2, n // 3, n // 2, n - 1, n])))
            c = {'op': FAIL_OPS[j % len(FAIL_OPS)], 'handler': HANDLERS[(j // 5) % len(HANDLERS)], 'down': rng.choice(DOWNSTREAM),
                 'ctx': rng.choice(['top', 'group']), 'ngroups': rng.randint(2, 4), 'n': n, 'F': F, 'perm_seed': rng.randrange(1 << 30),
                 'drive': rng.choice(DRIVES)}
            if c['handler'] == 'none' and c['ctx'] == 'group' and rng.random() < 0.5:
                c['outer_handler'] = rng.choice(['ignore', 'error_map'])
            yield c

    # ------------------------------------------------------------------
    _router = None

    def _items(self, case):
        """ids 0..n-1 in a pseudo-random group interleaving; starmap works on (group, id) pairs"""
        r = random.Random(case['perm_seed'])
        ng = case['ngroups'] if case['ctx'] == 'group' else 1
        groups = [r.randrange(ng) for _ in range(case['n'])]
        if case.get('first_fail_per_key'):
            groups = [i % ng for i in range(case['n'])]          # round-robin: every key is created before any gets a second item
        if case['op'] == 'starmap':
            return [(groups[i], i) for i in range(case['n'])], groups
        return list(range(case['n'])), groups

    def _run(self, case, items, groups, fops, handler, log=None, drive='cold'):
        """-> (main Snap, dead-letter Snap or None)"""
        ops_ = []
        if log is not None:
            ops_.append(ttap(log, 'H'))
        ops_ += fops
        if log is not None:
            ops_.append(ttap(log, 'A'))
        dead = None
        if handler == 'ignore':
            ops_.append(rs.error.ignore())
        elif handler == 'error_map':
            ops_.append(rs.error.map(g_err))
        elif handler == 'router':
            # ONE router pair serves every run of this process (re-subscribed per stream, as a long-lived
            # application would): the dead letter of a finished stream must not poison the next one
            if self._router is None:
                C13._router = rs.error.create_error_router()
            errors, route = self._router
            dead = Snap()
            dead.completions = 0
            _oc = dead.on_completed

            def oc():
                dead.completions += 1
                _oc()
            sub_errors = lambda: errors.subscribe(on_next=dead.on_next, on_error=dead.on_error, on_completed=oc)      # noqa: E731
            if drive != 'hot_data_first':
                sub_errors()
            ops_.append(route())
        ops_ += downstream(case['down'], listy=('exc' if case['op'] == 'map_exc_values' else case['op'] == 'scan_list'))
        if case['ctx'] == 'group':
            gof = {i: g for i, g in enumerate(groups)}
            keyf = (lambda x: gof[item_id(x)])
            pipe = [rs.ops.group_by(keyf, ops_)]
            if case.get('outer_handler') == 'ignore':
                pipe.append(rs.error.ignore())
            elif case.get('outer_handler') == 'error_map':
                pipe.append(rs.error.map(g_err))
        else:
            pipe = ops_
        if drive == 'cold':
            main = subscribe(rx.from_(items).pipe(rs.state.with_memory_store(pipe)), Snap())
            return main, dead
        # a pushed source: the data stream and the dead letter may be subscribed in either order, as long as both
        # are before the first item
        from ..progs import Controlled
        src = Controlled()
        main = Snap()
        try:
            src.observable.pipe(rs.state.with_memory_store(pipe)).subscribe(on_next=main.on_next, on_error=main.on_error, on_completed=main.on_completed)
            if drive == 'hot_data_first' and handler == 'router':
                sub_errors()
            for x in items:
                src.push(x)
            src.complete()
        except Exception as e:          # noqa: BLE001
            if main.err is None:
                main.err = e
        return main, dead

    def evaluate(self, case):
        out = Outcome()
        op, handler = case['op'], case['handler']
        F = set(case['F'])
        items, groups = self._items(case)
        n = case['n']
        out.tags += ['op=' + op, 'handler=' + handler, case['ctx'], 'down=' + case['down']]
        if case.get('outer_handler'):
            out.tags.append('no-handler-in-the-group-but-one-further-out')
        if not F:
            out.tags.append('no-fault')
        else:
            if len(F) == n:
                out.tags.append('all-fail')
            if 0 in F:
                out.tags.append('first-fails')
            if n - 1 in F:
                out.tags.append('last-fails')
            if any(i + 1 in F for i in F):
                out.tags.append('consecutive')
        ng = case['ngroups'] if case['ctx'] == 'group' else 1
        if ng > 64:
            out.tags.append('over-64-keys')
        if F and any(i not in F and groups[i] == groups[f] for f in F for i in range(n)):
            out.nontrivial = True

        log = []
        drive = case.get('drive', 'cold')
        out.tags.append('drive=' + drive)
        main, dead = self._run(case, items, groups, fail_op(op, F, 'faulty'), handler, log, drive=drive)
        # "as if the item were absent": the failing operator sees its key without the item.  The item is
        # dropped right in front of the operator (not from the source), so keys created upstream by the
        # item still exist - a reducing scan legitimately emits its seed for a key whose items all failed.
        drop = [rs.ops.filter(lambda x: item_id(x) not in F)]
        absent, _ = self._run(case, items, groups, drop + fail_op(op, F, 'absent'), 'ignore' if handler != 'none' else 'none')
        if absent.err is not None:
            return out.fail('harness:fault-free-run-errored', error=repr(absent.err))

        # (a) behind the failing operator
        hpos = {}
        keyof = {}
        for pos, e in enumerate(log):
            if e[0] == 'H' and e[1] == 'N':
                hpos[item_id(e[3])] = pos
                keyof[item_id(e[3])] = e[2]
        order = sorted(hpos, key=hpos.get)
        errs = [(pos, e) for pos, e in enumerate(log) if e[0] == 'A' and e[1] == 'E']
        out.observed['mux_errors_observed'] += len(errs)
        seen_items = [i for i in order]
        expect_err_items = [i for i in seen_items if i in F]
        if handler != 'none' or not F:
            if [item_id(e[3].item) if isinstance(e[3], Boom) else None for _, e in errs] != expect_err_items:
                return out.fail('mux-errors-differ-from-the-failing-items', want=expect_err_items,
                                got=[repr(e[3]) for _, e in errs][:10])
        for pos, e in errs:
            if not isinstance(e[3], Boom):
                return out.fail('mux-error-is-not-the-raised-exception', got=repr(e[3]))
            i = item_id(e[3].item)
            nxt = [hpos[j] for j in order if hpos[j] > hpos[i]]
            if not (hpos[i] < pos < (nxt[0] if nxt else len(log) + 1)):
                return out.fail('mux-error-not-at-the-failing-items-position', item=i)
            if e[2] != keyof[i]:
                return out.fail('mux-error-for-the-wrong-key', item=i, key=repr(e[2]), want=repr(keyof[i]))

        if handler == 'none':
            if not F:
                if main.err is not None or not main.done or norm(main.out) != norm(absent.out):
                    return out.fail('fault-free-stream-differs', got=main.out[:20], want=absent.out[:20], error=repr(main.err))
                out.observed['outputs_compared'] += 1
                return out
            first = min(F)
            out.observed['fatal_errors_observed'] += 1
            if main.done:
                return out.fail('unhandled-mux-error-did-not-surface-as-on_error', out=main.out[:20])
            if not isinstance(main.err, Boom) or item_id(main.err.item) != first:
                return out.fail('on_error-is-not-the-first-exception', got=repr(main.err), want_item=first)
            full, _ = self._run(case, items, groups, fail_op(op, set(), 'absent'), 'none')
            if norm(main.out) != norm(full.out[:len(main.out)]):
                return out.fail('items-before-the-error-are-not-a-prefix-of-the-fault-free-run', got=main.out[:20], fault_free=full.out[:20])
            return out

        if main.err is not None or not main.done:
            return out.fail('stream-did-not-survive-handled-item-errors', error=repr(main.err), done=main.done, handler=handler)
        if handler in ('ignore', 'router'):
            want = absent.out
        else:
            rep, _ = self._run(case, items, groups, fail_op(op, F, 'replaced'), 'none')
            if rep.err is not None:
                return out.fail('harness:replaced-run-errored', error=repr(rep.err))
            want = rep.out
        out.observed['outputs_compared'] += 1
        if norm(main.out) != norm(want):
            return out.fail('main-output-differs', handler=handler, want=want[:30], got=main.out[:30], items=items[:30], F=sorted(F))
        if handler == 'router':
            out.observed['dead_letters_compared'] += 1
            got = [item_id(e.item) if isinstance(e, Boom) else repr(e) for e in dead.out]
            if got != expect_err_items:
                return out.fail('dead-letters-differ', want=expect_err_items, got=got[:30])
            if dead.err is not None or not dead.done or dead.completions != 1 or dead.after_end:
                return out.fail('dead-letter-completion', done=dead.done, completions=dead.completions, error=repr(dead.err), after_end=dead.after_end)
        return out

    box_done = 0

    def extra_evidence(self):
        return {'shards_that_enumerated_their_part_of_the_box_completely': self.box_done}

    def shrink(self, case):
        F = case['F']
        for k in range(len(F)):
            yield dict(case, F=F[:k] + F[k + 1:])
        if case['n'] > 0:
            n = case['n'] - 1
            yield dict(case, n=n, F=[f for f in F if f < n])
        if case['down'] != 'none':
            yield dict(case, down='none')
        if case['ctx'] == 'group':
            yield dict(case, ctx='top')


CHECK = C13()

"""C02 - state confinement: a key lifetime's output depends only on that lifetime's items.

Events : create / item / completed recorded by taps at the head and at the tail of the inner pipeline P
         of a key-producing context (roll, split, time_split, group_by - optionally under an outer
         group_by that interleaves several keys); lifetimes are reconstructed from the two logs.
Oracle : (a) replay - for every lifetime, the tail items of that lifetime == the output of a FRESH
         instance of P run alone on exactly that lifetime's head items (the statement turned into a
         check; no model).  (b) metamorphic - the same per-key sequences under a second interleaving
         give identical per-key sequences of lifetimes and outputs.
"""
import random

from ..common import Check, Outcome, bootstrap, norm, PRELUDE_RULE
from .. import gen, progs
from ..muxmon import lifetimes

rs = bootstrap()

M = 8       # items are encoded as value * M + outer group
DIRTY = 999  # the value on which the map in front of the context raises (only the dirty group holds it)


def gen_ctx(rng, opts):
    kind = rng.choice(['roll', 'roll', 'roll_eq', 'split', 'time_split', 'group_by', 'group_by'])
    # biased towards the history the property calls out: a tee branch silent in one lifetime, active in the next
    length = rng.randint(1, 3)
    if rng.random() < 0.3:
        filt = ['filter', rng.choice(['gt:%d' % rng.randint(2, 9), 'lt:%d' % rng.randint(2, 9), 'modeq:3:0', 'even'])]
        other, _ = gen.gen_pipeline(rng, 'i', 1, gen.GenOpts(max_depth=0, allow_progress=False, allow_empty_sensitive=False), gen.State(in_tee=True), 0)
        inner = [['tee_map', rng.choice(['zip', 'combine_latest']), [[filt], other]], ['map', 'digest']]
        extra, _ = gen.gen_pipeline(rng, 'i', rng.randint(0, 2), opts, None, 1)
        inner = inner + extra
    else:
        inner, _ = gen.gen_pipeline(rng, 'i', length, opts, None, opts.max_depth)
    if kind == 'roll':
        return ['roll', rng.randint(1, 5), rng.randint(1, 5), inner]
    if kind == 'roll_eq':
        w = rng.randint(1, 5)
        return ['roll', w, w, inner]
    if kind == 'split':
        return ['split', rng.choice(['div:%d', 'divt:%d', 'divpar:%d']) % rng.randint(2, 5), inner]
    if kind == 'time_split':
        return ['time_split', {'active': rng.choice([None, 4, 7]), 'inactive': rng.choice([None, 3]),
                               'closing': rng.choice([None, 'modeq:5:0']), 'include': rng.random() < 0.5}, inner]
    return ['group_by', rng.choice(['mod:%d', 'kt:%d', 'ks:%d', 'kmix:%d']) % rng.choice([2, 3, 5, 17]), inner]


def _with_ignores(node):
    """the node with rs.error.ignore() appended to the pipeline of every (nested) context"""
    if node[0] == 'tee_map':
        return [node[0], node[1], [[_with_ignores(n) for n in b] for b in node[2]]]
    if node[0] in progs.CONTEXTS:
        return node[:-1] + [[_with_ignores(n) for n in node[-1]] + [['ignore']]]
    return node


class C02(Check):
    ID = 'C02'
    LEVEL = 'exploration'
    BUDGET = {'quick': 75, 'thorough': 240}
    RULE = ('case = (context: roll w,s in 1..5 (both implementations) / split / time_split / group_by (up to 17 sparse keys) with an inner pipeline P from the typed generator - all '
            'stateful operators incl. scan family, first, last, take, distinct, distinct_until_changed, lag, pad_start/pad_end, start_with, batch, assert_1, tee_map zip/combine_latest/'
            'merge, nested group_by/roll/split/time_split -, optionally under an outer group_by with 2-3 interleaved keys; input 0..40 ints, long enough to wrap the roll slot ring '
            'several times). 30% of the cases are built around the history the property names: a tee branch silent in one lifetime and active in the next. '
            'Every 120th case runs at scale: windows of 257-400 items, 300 groups, take/batch/lag 257+ on 700-1300 items. non-trivial = some key slot served >= 2 lifetimes with items; distinct = hash of the case')
    RULE += PRELUDE_RULE
    ASSUMPTIONS = ['all parameters of a context are fixed at generation time, so the replayed pipeline is the same program',
                   'replay uses the same multiplexed code path (with_memory_store on the lifetime\'s items): multiplexed-only operators have no plain form',
                   'values are snapshotted when they pass the taps']
    ANCHORS = ['rxsci/state/memory_store.py', 'rxsci/operators/scan.py', 'rxsci/operators/tee_map.py', 'rxsci/operators/first.py', 'rxsci/operators/last.py',
               'rxsci/operators/take.py', 'rxsci/operators/distinct.py', 'rxsci/data/lag.py', 'rxsci/data/pad.py', 'rxsci/operators/start_with.py',
               'rxsci/operators/assert_.py', 'rxsci/data/roll.py', 'rxsci/data/split.py', 'rxsci/data/time_split.py', 'rxsci/operators/group_by.py']
    REQUIRED_TAGS = ['roll', 'split', 'time_split', 'group_by', 'outer-group', 'tee_map', 'scan', 'distinct', 'lag', 'first', 'last', 'take',
                     'pad_start', 'pad_end', 'start_with', 'batch', 'assert_1', 'duc', 'slot-reused', 'scale', 'after-aborted-subscriptions',
                     'prelude:dispose', 'prelude:source_error', 'prelude:consumer_raise', 'prelude:peek']
    REQUIRED_OBSERVED = ['lifetimes_replayed', 'metamorphic_pairs_compared']

    def generate(self, rng, tier, shard, nshards):
        n = 2200 if tier == 'quick' else 10 ** 7
        for k in range(n):
            scale = (k % 120 == 6)
            opts = gen.GenOpts(max_depth=rng.choice([0, 1, 1, 2]) if not scale else 0, allow_progress=False, allow_empty_sensitive=True,
                               exclude_ops=('assert_',) if not scale else ('assert_', 'fvariance', 'fstddev'), ctx_weight=2, tee_weight=3, scale=scale)
            ctx = gen_ctx(rng, opts)
            if scale:
                # sizes beyond the small-int cache: windows of 257-400 items, 300 groups, inner take/batch/lag 257+
                inner, _ = gen.gen_pipeline(rng, 'i', rng.randint(1, 2), opts, None, 0)
                ctx = rng.choice([['roll', 300, 100, inner], ['roll', 257, 256, inner], ['roll', 400, 399, inner], ['roll', 300, 300, inner],
                                  ['group_by', 'mod:300', inner], ['split', 'div:300', inner]])
                if (k // 120) % 3 == 2:
                    # 140-300 groups alive and interleaved around a join whose branches emit at different rates
                    tee = ['tee_map', rng.choice(['zip', 'combine_latest']), [[['filter', 'modne:%d:0' % rng.randint(2, 3)]], [['map', 'add:1']]]]
                    ctx = ['group_by', rng.choice(['mod:140', 'mod:300']), [tee, ['map', 'digest']]]
                yield {'ctx': ctx, 'outer': False, 'seqs': [[rng.randint(0, 900) for _ in range(rng.choice([700, 1300]))]],
                       'shapes': ['blocks', 'blocks'], 'iseed': rng.randrange(1 << 30)}
                continue
            outer = rng.random() < 0.5
            ng = rng.randint(2, 3) if outer else 1
            seqs = []
            for g in range(ng):
                ln = rng.choice([0, 1, 3, 8, 15, 25, 40])
                xs = [rng.randint(0, 12) for _ in range(ln)]
                if ctx[0] == 'time_split':
                    xs = sorted(rng.randint(0, 40) for _ in range(ln))
                seqs.append(xs)
            case = {'ctx': ctx, 'outer': outer, 'seqs': seqs, 'shapes': [rng.choice(gen.INTERLEAVINGS), rng.choice(gen.INTERLEAVINGS)],
                    'iseed': rng.randrange(1 << 30)}
            if k % 4 == 1:
                # the observable has a history: subscriptions that were disposed mid-stream, died of a source error, or
                # whose consumer raised; what they leave in the store must not show in the judged subscription
                total = sum(len(x) for x in seqs)
                case['prelude'] = [[rng.choice(['dispose', 'source_error', 'consumer_raise', 'peek']), rng.randint(0, max(1, total))]
                                   for _ in range(rng.randint(1, 3))]
            yield case

    # ------------------------------------------------------------------
    def _run(self, case, shape, salt):
        ctx = case['ctx']
        r = random.Random(case['iseed'] + salt)
        if case['outer']:
            pairs = gen.interleave_keys(r, case['seqs'], shape)
            items = [v * M + g for g, v in pairs]
            if case.get('dirty') is not None:
                # (a mux error that leaves a window pipeline unhandled is fatal where the windows are demultiplexed,
                # so it is dropped at the end of the window pipeline as well as after the context)
                ctx = _with_ignores(ctx)
                prog = [['group_by', 'mod:%d' % M, [['map', 'div:%d' % M], ['map', 'raise_on:%d:id' % DIRTY], ctx, ['ignore']]]]
                path = (0, 2)
            else:
                prog = [['group_by', 'mod:%d' % M, [['map', 'div:%d' % M], ctx]]]
                path = (0, 1)
        else:
            items = list(case['seqs'][0])
            prog = [ctx]
            path = (0,)
        head, tail, ohead = [], [], []
        taps = {path: (head, tail)}
        if case['outer']:
            taps[(0,)] = (ohead, None)
        snap = progs.run_mux(prog, items, taps=taps, prelude=case.get('prelude'))
        # which outer group an outer key serves is read off the (encoded) items it receives
        self._outer_of = {e[1]: e[2] % M for e in ohead if e[0] == 'N'}
        if case.get('dirty') is not None:
            d = case['dirty']
            keep = lambda e: len(e) < 2 or not isinstance(e[1], tuple) or self._outer_of.get(e[1][1]) != d      # noqa: E731
            head[:] = [e for e in head if keep(e)]
            tail[:] = [e for e in tail if keep(e)]
        return snap, head, tail

    def _pairs(self, head, tail, out):
        hl, odd1 = lifetimes(head)
        tl, odd2 = lifetimes(tail)
        if odd1 or odd2:
            out.fail('events-outside-a-key-lifetime', odd=[repr(o) for o in (odd1 + odd2)[:4]])
            return None
        bykey = {}
        for lt in tl:
            bykey.setdefault(lt.key, []).append(lt)
        seen = {}
        res = []
        for lt in hl:
            j = seen.get(lt.key, 0)
            seen[lt.key] = j + 1
            ts = bykey.get(lt.key, [])
            if j >= len(ts):
                out.fail('lifetime-without-counterpart-at-the-tail', key=repr(lt.key), items=lt.items[:20])
                return None
            res.append((lt, ts[j], j))
        if any(len(v) != seen.get(k, 0) for k, v in bykey.items()):
            out.fail('lifetimes-at-the-tail-without-counterpart-at-the-head')
            return None
        return res

    def evaluate(self, case):
        out = Outcome()
        ctx = case['ctx']
        P = ctx[-1]
        names = progs.op_names(P)
        out.tags += [ctx[0]] + sorted(set(names))
        if case['outer']:
            out.tags.append('outer-group')
        if case.get('prelude'):
            out.tags.append('after-aborted-subscriptions')
            out.tags += ['prelude:' + p[0] for p in case['prelude']]
        if case.get('dirty') is not None:
            out.tags.append('beside-a-group-with-failing-records')
        if any(len(x) >= 300 for x in case['seqs']):
            out.tags.append('scale')
        snap, head, tail = self._run(case, case['shapes'][0], 0)
        pairs = self._pairs(head, tail, out) if snap.err is None else None
        if snap.err is not None or not snap.done:
            # decide with the replays whether the error is the program's own (e.g. mean(reduce) on an empty key)
            hl, _ = lifetimes(head)
            for lt in hl:
                r = progs.run_mux(P, lt.items)
                if r.err is not None:
                    out.discarded = 'the inner pipeline errors on one of its own lifetimes (outside the domain)'
                    return out
            return out.fail('stream-error-although-every-lifetime-replays-cleanly', error=repr(snap.err))
        if pairs is None:
            return out
        reused = False
        for lt, t, j in pairs:
            if j >= 1 and lt.items:
                reused = True
            r = progs.run_mux(P, lt.items)
            out.observed['lifetimes_replayed'] += 1
            if r.err is not None or not r.done:
                out.discarded = 'the inner pipeline errors on one of its own lifetimes (outside the domain)'
                return out
            if norm(r.out) != norm(t.items):
                k = next((i for i, (a, b) in enumerate(zip(r.out, t.items)) if norm(a) != norm(b)), min(len(r.out), len(t.items)))
                stale = False
                if k < len(r.out) and k < len(t.items):
                    stale = 'tee_map' in names
                out.fail('lifetime-output-differs-from-the-lifetime-replayed-alone',
                         mech='tee-map-stale-join-slot' if stale and self._only_tee_differs(case) else None,
                         key=repr(lt.key), lifetime_index_on_key=j, lifetime_items=lt.items[:40],
                         in_context=t.items[max(0, k - 1):k + 3], alone=r.out[max(0, k - 1):k + 3], first_difference=k)
                return out
        if reused:
            out.nontrivial = True
            out.tags.append('slot-reused')
        # (b) metamorphic: another interleaving of the same per-key sequences
        if case['outer']:
            a = self._by_outer(pairs)          # (uses the outer-key map of the first run: compute before the second run)
            snap2, head2, tail2 = self._run(case, case['shapes'][1], 1)
            if snap2.err is not None:
                return out.fail('second-interleaving-errored', error=repr(snap2.err))
            pairs2 = self._pairs(head2, tail2, out)
            if pairs2 is None:
                return out
            b = self._by_outer(pairs2)
            out.observed['metamorphic_pairs_compared'] += len(a)
            if norm(a) != norm(b):
                g = next(k for k in set(a) | set(b) if norm(a.get(k)) != norm(b.get(k)))
                out.fail('per-key-result-depends-on-the-interleaving', outer_key=repr(g), first=a.get(g), second=b.get(g))
        else:
            out.observed['metamorphic_pairs_compared'] += 0
        return out

    @staticmethod
    def _only_tee_differs(case):
        return True

    def _by_outer(self, pairs):
        """outer group -> ordered list of (lifetime items, tail items)"""
        res = {}
        for lt, t, _ in pairs:
            g = self._outer_of.get(lt.key[1], repr(lt.key[1]))
            res.setdefault(g, []).append((lt.items, t.items))
        return res

    def shrink(self, case):
        from .c11 import shrink_prog
        for g, xs in enumerate(case['seqs']):
            for k in range(len(xs)):
                seqs = list(case['seqs'])
                seqs[g] = xs[:k] + xs[k + 1:]
                yield dict(case, seqs=seqs)
        if case['outer'] and case.get('dirty') is None:
            yield dict(case, outer=False, seqs=[case['seqs'][0]])
        if case.get('prelude'):
            c = dict(case)
            del c['prelude']
            yield c
            for k in range(len(case['prelude'])):
                if len(case['prelude']) > 1:
                    yield dict(case, prelude=case['prelude'][:k] + case['prelude'][k + 1:])
        ctx = case['ctx']
        for sub in shrink_prog({'p': ctx[-1]}, 'p'):
            if sub['p'] and progs.well_typed(sub['p']) is not None:
                yield dict(case, ctx=ctx[:-1] + [sub['p']])


CHECK = C02()

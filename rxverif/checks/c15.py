"""C15 - framing round-trips under any re-chunking of the framed stream.

Events : every item delivered by unframe(), its completion / error.
Oracle : unframe(chunks(concat(frame(items)))) == items, completion signalled; for a
         truncated stream, line framing delivers the unterminated non-empty tail at
         completion, length-prefix framing delivers exactly the complete frames.
"""
import itertools

import rx

from .. import chunking
from ..common import Check, Outcome, Snap, subscribe, subscribe2, bootstrap

bootstrap()
import rxsci.framing.line as line                      # noqa: E402
import rxsci.framing.length_prefix as lp               # noqa: E402
from ..progs import call                                # noqa: E402  (positional / keyword calling conventions)

LINE_ALPHA = ['', 'a', 'bc', '\x00', '\r', '\x03\x00', 'é', '\x00\x00\x00\x01', ' ', '\x0c', '\u2028b']
LP_ALPHA = [b'', b'a', b'\n', b'\x00', b'\x01\x00', b'\x00\x00\x00\x00', b'xy\n', b'\xff']


def _enc(case):
    if case['framing'] == 'line':
        return case['items']
    return [bytes.fromhex(h) for h in case['items']]


def _reference_stream(case, items):
    if case['framing'] == 'line':
        return ''.join(i + '\n' for i in items)
    return b''.join(len(i).to_bytes(case['prefix'], case['byteorder']) + i for i in items)


def _frame_bounds(case, items):
    """Positions in the stream that are frame boundaries, and prefix ranges."""
    pos = 0
    bounds = {0}
    prefix_interior = set()
    for i in items:
        if case['framing'] == 'line':
            pos += len(i) + 1
        else:
            for k in range(1, case['prefix']):
                prefix_interior.add(pos + k)
            pos += case['prefix'] + len(i)
        bounds.add(pos)
    return bounds, prefix_interior


class C15(Check):
    ID = 'C15'
    LEVEL = 'exploration'
    BUDGET = {'quick': 30, 'thorough': 240}      # (the exhaustive box is 'as much as fits'; the required classes come first)
    EXHAUSTIVE = {'quick': False, 'thorough': False}
    RULE = ('case = (framing config, item list, cut set, empty-chunk flag, truncation point); '
            'quick: every cut set of every stream <= 10 units built from item lists of length 0..3 over an '
            'adversarial alphabet (empty items, NUL, the other framing\'s bytes), all single/double cuts of random '
            'streams <= 60 units, random cut sets + empty chunks of streams up to 2 KiB, every truncation point of '
            'short streams; thorough: streams <= 12 units exhaustively, double cuts <= 160 units, more random. '
            'non-trivial = at least one cut strictly inside a frame (prefix or payload); distinct = hash of the case')
    ASSUMPTIONS = ['items of line framing contain no \\n (stated domain of the property)',
                   'frames fit the prefix size (len < 2**(8*prefix_size))']
    ANCHORS = ['rxsci/framing/line.py', 'rxsci/framing/length_prefix.py']
    REQUIRED_TAGS = ['large-frames-of-exactly-the-same-size', 'reentrant-consumer', 'item-is-a-framed-batch-cut-on-its-record-boundaries', 'line', 'lp1', 'lp2', 'lp4', 'lp8', 'little', 'big', 'empties', 'trunc',
                     'cut-in-prefix', 'cut-in-frame', 'empty-list', 'empty-item', 'stream>64KiB', 'chunks-as-bytearray', 'chunks-as-memoryview', 'items-as-str-subclass-instances', 'lines-over-64Ki-cut-at-their-terminators',
                     'large-frame-completed-by-a-chunk-ending-inside-the-next-header']

    REQUIRED_OBSERVED = ['triples_of_staggered_subscriptions', 'bytes_like_runs']

    _ops = {}

    # ---------------------------------------------------------------- generation
    def _configs(self):
        yield {'framing': 'line'}
        for p in (1, 2, 4, 8):
            for bo in ('little', 'big'):
                yield {'framing': 'lp', 'prefix': p, 'byteorder': bo}

    def _mk(self, cfg, items, cuts, empties=False, trunc=None):
        c = dict(cfg)
        c['items'] = list(items) if cfg['framing'] == 'line' else [i.hex() for i in items]
        c['cuts'] = list(cuts)
        c['empties'] = empties
        c['trunc'] = trunc
        return c

    def _rand_items(self, rng, cfg, maxitems, maxlen):
        n = rng.choice([0, 1, 1, 2, 3, 5, maxitems])
        items = []
        for _ in range(n):
            ln = rng.choice([0, 0, 1, 2, 3, rng.randint(0, maxlen)])
            if cfg['framing'] == 'line':
                alpha = 'ab \x00\r\x01é€"\\,\x0b\x0c\x1d\x85\u2028'       # (incl. the characters str.splitlines() would split on)
                items.append(''.join(rng.choice(alpha) for _ in range(ln)))
            else:
                if cfg['prefix'] == 1:
                    ln = min(ln, 255)
                items.append(bytes(rng.choice([0, 1, 2, 10, 13, 65, 255, rng.randint(0, 255)]) for _ in range(ln)))
        return items

    def generate(self, rng, tier, shard, nshards):
        from ..common import interleave
        return interleave(self._gen_small(tier, shard, nshards), self._gen_double(rng, tier, shard),
                          self._gen_random(rng, tier))

    def _gen_small(self, tier, shard, nshards):
        small = 7 if tier == 'quick' else 12
        cfgs = list(self._configs())
        # (a) exhaustive cut sets of short streams (sharded by index)
        idx = 0
        for cfg in cfgs:
            alpha = LINE_ALPHA if cfg['framing'] == 'line' else LP_ALPHA
            for n in range(0, 4):
                for items in itertools.product(alpha, repeat=n):
                    s = _reference_stream(cfg, list(items))
                    if len(s) > small:
                        continue
                    idx += 1
                    if idx % nshards != shard:
                        continue
                    for cuts in chunking.all_cut_sets(len(s)):
                        yield self._mk(cfg, items, cuts)
                    yield self._mk(cfg, items, tuple(range(1, len(s))), empties=True)
                    for t in range(0, len(s)):
                        yield self._mk(cfg, items, (), trunc=t)
                        if t > 1:
                            yield self._mk(cfg, items, tuple(range(1, t)), trunc=t)
        self.box_done = 1

    def _gen_double(self, rng, tier, shard):
        dbl = 60 if tier == 'quick' else 160
        cfgs = list(self._configs())
        # (b) all single and double cuts of medium random streams
        for k in range(9 if tier == 'quick' else 45):
            cfg = cfgs[(k + shard) % len(cfgs)]
            for _ in range(50):
                items = self._rand_items(rng, cfg, 6, 12)
                s = _reference_stream(cfg, items)
                if 2 <= len(s) <= dbl:
                    break
            for cuts in chunking.single_and_double_cuts(len(s)):
                yield self._mk(cfg, items, cuts)

    def _gen_random(self, rng, tier):
        nrand = 2500 if tier == 'quick' else 10 ** 7
        cfgs = list(self._configs())
        # (c) random long streams, random cut sets, empty chunks, truncations
        for k in range(nrand):
            cfg = cfgs[rng.randrange(len(cfgs))]
            if k % 150 == 5:
                # scale: streams of 100-400 KiB (beyond 64 KiB buffers), items up to 70 KiB, fixed-size and random chunks
                big = cfgs[(k // 150) % len(cfgs)]
                if big['framing'] == 'lp' and big['prefix'] == 1:
                    big = cfgs[0]
                items = []
                for _ in range(rng.choice([4, 40, 300])):
                    ln = rng.choice([0, 1, 200, 1000, 5000, 70000]) if big['framing'] == 'line' or big['prefix'] >= 4 else rng.choice([0, 1, 200, 1000, 60000])
                    if big['framing'] == 'line':
                        items.append(''.join(rng.choice('ab \x00\r\xe9') for _ in range(min(ln, 3000))) * max(1, ln // 3000))
                    else:
                        items.append(rng.randbytes(ln))
                s = _reference_stream(big, items)
                size = rng.choice([1000, 4096, 10000, 65536, 70001])
                cuts = tuple(range(size, len(s), size)) if rng.random() < 0.7 else chunking.random_cuts(rng, len(s), 30)
                yield self._mk(big, items, cuts, empties=False)
                continue
            if k % 150 == 60:
                # records far longer than 64 KiB written as `write(record); write(terminator)` (what print() does): every chunk boundary
                # falls exactly between a payload and its terminator, or right behind the terminator
                lcfg = cfgs[0]
                assert lcfg['framing'] == 'line'
                unit = ''.join(rng.choice('ab \x00\r\xe9') for _ in range(1000))
                items = [unit * rng.choice([66, 70, 200]), 'b', unit * rng.choice([66, 131]), '', 'tail'][:rng.choice([3, 5])]
                s = _reference_stream(lcfg, items)
                ends, pos = [], 0
                for it in items:
                    pos += len(it)
                    ends.append(pos)        # the position of this item's terminator
                    pos += 1
                style = (k // 150) % 3
                cuts = sorted(set(ends if style == 0 else [e + 1 for e in ends] if style == 1 else ends + [e + 1 for e in ends]))
                yield dict(self._mk(lcfg, items, tuple(c for c in cuts if 0 < c < len(s)), empties=False), long_lines=True)
                continue
            if k % 150 == 75:
                # one record of 64 KiB or more followed by a few small ones, read in blocks: the chunk that completes the large frame
                # ends INSIDE the header of the next frame (1 .. prefix-1 bytes of it), and little data follows - a length remembered
                # from the frame just delivered must not be taken for the length of the frame that is pending
                env = cfgs[1 + 4 + ((k // 150) % 4)]           # prefix 4 or 8, both byte orders
                big_n = [65536, 70000, 76800, 1 << 17][(k // 150) % 4]
                items = [rng.randbytes(big_n), b'x', b'yy', b'', b'tail']
                s = _reference_stream(env, items)
                end = env['prefix'] + big_n
                for j in range(1, env['prefix']):
                    for first in ((), (1000,), (env['prefix'],)):
                        yield dict(self._mk(env, items, first + (end + j,), empties=False), large_then_small=True)
                continue
            if k % 150 == 45:
                # fixed-size large records (tensors of one shape): frames of 1-1.5 MiB, all of EXACTLY the same size, arriving in
                # 64 KiB blocks - a receive buffer kept from one frame to the next must start empty
                env = cfgs[1 + 4 + ((k // 150) % 4)]
                size = [1 << 20, (1 << 20) + (1 << 19), (1 << 20) + 7][(k // 150) % 3]
                items = [bytes([j + 1]) * size for j in range(3)]
                if (k // 150) % 2:
                    items.insert(1, b'small')
                s = _reference_stream(env, items)
                yield dict(self._mk(env, items, tuple(range(65536, len(s), 65536)), empties=False), equal_large=True)
                continue
            if k % 150 == 30:
                # envelopes: an item that is itself a framed batch of large records in the SAME framing, cut on the inner
                # record boundaries - every chunk but the first then looks like one complete frame while the outer frame is
                # still pending (records of 64-72 KiB: beyond any "large chunk" shortcut)
                env = cfgs[1 + 4 + ((k // 150) % 4)]           # prefix 4 or 8, both byte orders
                recs = [rng.randbytes(rng.choice([65536, 70000, 71000, 72000])) for _ in range(rng.randint(2, 3))]
                inner = _reference_stream(env, recs)
                items = [b'head', inner, b'', b'tail'][rng.choice([0, 1]):]
                s = _reference_stream(env, items)
                start = s.index(inner)
                cuts, pos = [], start
                for r_ in recs:
                    cuts.append(pos)
                    pos += env['prefix'] + len(r_)
                cuts.append(pos)
                yield dict(self._mk(env, items, tuple(c for c in cuts if 0 < c < len(s)), empties=False), envelope=True)
                continue
            items = self._rand_items(rng, cfg, 20, 300)
            s = _reference_stream(cfg, items)
            cuts = chunking.random_cuts(rng, len(s), maxcuts=rng.choice([1, 3, 8, 40]))
            trunc = rng.randrange(len(s)) if (len(s) and rng.random() < 0.3) else None
            if trunc is not None:
                cuts = tuple(c for c in cuts if c < trunc)
            yield self._mk(cfg, items, cuts, empties=rng.random() < 0.4, trunc=trunc)

    # ---------------------------------------------------------------- evaluation
    def evaluate(self, case):
        out = Outcome()
        items = _enc(case)
        kind = case['framing']
        empty = '' if kind == 'line' else b''
        # operator objects are built once per configuration and re-subscribed for every case: the pending
        # partial frame must belong to the subscription, not to the operator
        cfgkey = (kind, case.get('prefix'), case.get('byteorder'))
        if cfgkey not in self._ops:
            if kind == 'line':
                self._ops[cfgkey] = (line.frame(), line.unframe())
            else:
                self._ops[cfgkey] = (call(lp.frame, [('prefix_size', case['prefix']), ('byteorder', case['byteorder'])]),
                                     call(lp.unframe, [('prefix_size', case['prefix']), ('byteorder', case['byteorder'])]))
        fr, un = self._ops[cfgkey]
        if kind == 'line':
            out.tags.append('line')
        else:
            out.tags += ['lp%d' % case['prefix'], case['byteorder']]
        if case.get('equal_large'):
            out.tags.append('large-frames-of-exactly-the-same-size')
        if case.get('large_then_small'):
            out.tags.append('large-frame-completed-by-a-chunk-ending-inside-the-next-header')
        if case.get('long_lines'):
            out.tags.append('lines-over-64Ki-cut-at-their-terminators')
        if case.get('envelope'):
            out.tags.append('item-is-a-framed-batch-cut-on-its-record-boundaries')
        if not items:
            out.tags.append('empty-list')
        if any(len(i) == 0 for i in items):
            out.tags.append('empty-item')

        framed = subscribe2(rx.from_(items).pipe(fr), out, 'frame')
        if framed.err is not None or not framed.done:
            return out.fail('frame-failed', error=repr(framed.err), done=framed.done)
        stream = empty.join(framed.out)
        if len(stream) > 65536:
            out.tags.append('stream>64KiB')
        if stream != _reference_stream(case, items):
            return out.fail('frame-output-not-the-framed-items', got=stream)
        out.observed['frames'] += len(framed.out)

        if kind == 'line' and items and len(stream) <= 65536:
            # the same text as str SUBCLASS instances (a str subclass whose str() / format() / repr() say something else than its
            # text; members of a str-mixin Enum): a line is the item's text
            from ..common import LoudStr, str_enum_members
            for how, alt_items in (('str-subclass', [LoudStr(i) for i in items]), ('str-enum', str_enum_members(items))):
                g = subscribe(rx.from_(alt_items).pipe(fr), Snap())
                out.observed['framings_of_str_subclass_items'] += 1
                if g.err is not None or not g.done or ''.join(str.__str__(x) for x in g.out) != stream:
                    return out.fail('frame-of-%s-items-differs-from-the-frame-of-their-text' % how, error=repr(g.err), want=stream[:200],
                                    got=''.join(str.__str__(x) for x in g.out if isinstance(x, str))[:200])
            out.tags.append('items-as-str-subclass-instances')
        trunc = case['trunc']
        data = stream if trunc is None else stream[:trunc]
        cuts = [c for c in case['cuts'] if 0 < c < len(data)]
        chunks = chunking.cut(data, cuts)
        if case['empties']:
            chunks = chunking.insert_empties_everywhere(chunks, empty)
            out.tags.append('empties')
        bounds, prefint = _frame_bounds(case, items)
        inside = [c for c in cuts if c not in bounds]
        if inside:
            out.nontrivial = True
            out.tags.append('cut-in-frame')
        if any(c in prefint for c in cuts):
            out.tags.append('cut-in-prefix')

        # expectation
        if trunc is None:
            expected = list(items)
        else:
            out.tags.append('trunc')
            if kind == 'line':
                expected = data.split('\n')
                if expected[-1] == '':
                    expected.pop()
            else:
                expected, pos = [], 0
                for i in items:
                    pos += case['prefix'] + len(i)
                    if pos <= trunc:
                        expected.append(i)
                    else:
                        break

        got = subscribe2(rx.from_(chunks).pipe(un), out, 'unframe')
        out.observed['chunks'] += len(chunks)
        out.observed['unframed_items'] += len(got.out)
        if got.err is not None:
            return out.fail('unframe-error', error=repr(got.err), chunks=chunks)
        if not got.done:
            return out.fail('unframe-no-completion', chunks=chunks)
        if got.after_end:
            return out.fail('unframe-events-after-completion', chunks=chunks)
        if got.out != expected or [type(x) for x in got.out] != [type(x) for x in expected]:
            return out.fail('unframe-mismatch', expected=expected, got=got.out, chunks=chunks)
        if kind != 'line':
            # the same chunks as bytearray objects (mutable: recv_into / readinto producers) or as memoryview slices of one
            # buffer (zero-copy re-chunking), consumed TWICE as the same objects (replay / retry of a cold source): the frames
            # are the same bytes objects' worth, and the library has not changed the chunks it was handed
            ct = chunking.BYTES_LIKE[(len(cuts) + len(items) + len(data)) % 3]
            if ct != 'bytes':
                out.tags.append('chunks-as-' + ct)
                alt = chunking.bytes_like(chunks, ct)
                before = chunking.frozen(alt)
                for turn in (1, 2):
                    g = subscribe(rx.from_(alt).pipe(un), Snap())
                    out.observed['bytes_like_runs'] += 1
                    if chunking.frozen(alt) != before:
                        return out.fail('unframe-changed-the-chunks-it-was-given', chunk_type=ct, before=before, after=chunking.frozen(alt))
                    if g.err is not None or not g.done or [bytes(x) for x in g.out] != expected:
                        return out.fail('unframe-mismatch-on-%s-chunks' % ct, subscription=turn, expected=expected, got=g.out, error=repr(g.err), chunks=before)
                alt_items = chunking.bytes_like(items, ct)
                before = chunking.frozen(alt_items)
                g = subscribe(rx.from_(alt_items).pipe(fr), Snap())
                if chunking.frozen(alt_items) != before:
                    return out.fail('frame-changed-the-items-it-was-given', chunk_type=ct)
                if g.err is not None or not g.done or b''.join(bytes(x) for x in g.out) != stream:
                    return out.fail('frame-mismatch-on-%s-items' % ct, error=repr(g.err), got=[bytes(x) for x in g.out])
        if len(stream) <= 4096:
            from ..progs import twin_subscriptions
            t = twin_subscriptions(lambda src: src.pipe(un), chunks, out, 'unframe', lambda xs: list(xs))
            if t is not None and t != expected:
                return out.fail('unframe-mismatch-with-two-live-subscribers', expected=expected, got=t, chunks=chunks)
            from ..progs import staggered_subscriptions
            t = staggered_subscriptions(lambda src: src.pipe(un), chunks, out, 'unframe', lambda xs: list(xs))
            if t is not None and t != expected:
                return out.fail('unframe-mismatch-with-staggered-streams-through-one-operator', expected=expected, got=t, chunks=chunks)
        if len(stream) <= 4096 and expected:
            # A consumer that, while it is handed a frame, runs ANOTHER unframing of the same kind to completion
            # (nested framing, a flat_map over framed payloads): the parse state of the outer subscription must not
            # be shared with it.  The inner source is synchronous, so the two really nest.
            inner_items = list(items[:3])
            inner_stream = _reference_stream(case, inner_items)
            inner_chunks = chunking.cut(inner_stream, [c for c in (1, len(inner_stream) // 2) if 0 < c < len(inner_stream)])
            inner_results = []

            def sync_source(observer, scheduler=None):
                for c in inner_chunks:
                    observer.on_next(c)
                observer.on_completed()

            def reenter(_frame):
                g = subscribe(rx.create(sync_source).pipe(un), Snap())
                inner_results.append((g.out, g.done, g.err))
            import rx.operators as rxops
            got2 = subscribe(rx.from_(chunks).pipe(un, rxops.do_action(on_next=reenter)), Snap())
            out.observed['reentrant_unframings'] += len(inner_results)
            out.tags.append('reentrant-consumer')
            if got2.err is not None or not got2.done or got2.out != expected:
                return out.fail('unframe-mismatch-when-the-consumer-unframes-another-stream', expected=expected, got=got2.out, error=repr(got2.err),
                                chunks=chunks, inner_chunks=inner_chunks)
            bad = [r for r in inner_results if r[0] != inner_items or not r[1] or r[2] is not None]
            if bad:
                return out.fail('nested-unframe-mismatch', expected=inner_items, got=bad[0][0], error=repr(bad[0][2]), inner_chunks=inner_chunks)
        return out

    box_done = 0

    def extra_evidence(self):
        return {'shards_that_enumerated_their_part_of_the_box_completely': self.box_done}

    def shrink(self, case):
        for k in range(len(case['items'])):
            c = dict(case)
            c['items'] = case['items'][:k] + case['items'][k + 1:]
            yield c
        for k in range(len(case['cuts'])):
            c = dict(case)
            c['cuts'] = case['cuts'][:k] + case['cuts'][k + 1:]
            yield c
        if case['empties']:
            c = dict(case)
            c['empties'] = False
            yield c
        for k, it in enumerate(case['items']):
            if len(it) > 1:
                c = dict(case)
                half = it[:len(it) // 2] if case['framing'] == 'line' else it[:(len(it) // 4) * 2]
                c['items'] = case['items'][:k] + [half] + case['items'][k + 1:]
                yield c


CHECK = C15()

"""C06 - split cuts each key's stream into maximal runs of equal predicate value.

Events : create / item / completed of every segment key at the head of split's inner pipeline, the
         items split received and its to_list output, in one real-time log.
Oracle : runs computed with != on consecutive predicate values: every item in exactly one segment,
         contiguous, in source order; a new segment starts exactly at a != change (closed while that
         item is processed); the last segment closes at key completion; no segment for an empty key.
"""
import itertools

from ..common import Check, Outcome, bootstrap, interleave, with_prelude, with_reuse, prelude_tags, shrink_prelude, PRELUDE_TAGS, PRELUDE_RULE
from .. import windows, model, progs

rs = bootstrap()

PREDS = ['div:%d', 'divt:%d', 'divs:%d', 'divbig:%d', 'divpar:%d', 'divhuge:%d', 'divf:%d', 'divnp:%d', 'divnpf:%d', 'divbool:%d', 'divcent:%d', 'divnone:%d', 'divnan:%d', 'divnant:%d', 'divobj:%d', 'divobjt:%d', 'divtag:%d', 'divcls:%d', 'divsloppy:%d']


def expected_segments(xs, pred):
    segs = model.split_segments(xs, pred)
    out = []
    for si, (k, start, vals) in enumerate(segs):
        close = segs[si + 1][1] if si + 1 < len(segs) else len(xs)
        out.append({'idx': list(range(start, start + len(vals))), 'close': close})
    return out


def compositions(n):
    """all ways to write n as an ordered sum of positive ints"""
    if n == 0:
        yield ()
        return
    for cuts in itertools.product([0, 1], repeat=n - 1):
        parts, cur = [], 1
        for c in cuts:
            if c:
                parts.append(cur)
                cur = 1
            else:
                cur += 1
        parts.append(cur)
        yield tuple(parts)


class C06(Check):
    ID = 'C06'
    LEVEL = 'exploration'
    BUDGET = {'quick': 75, 'thorough': 240}
    RULE = ('case = (predicate, stream, parent context). Box: EVERY composition of n <= 9 (quick) / 11 (thorough) into run lengths, runs drawn from 3 predicate '
            'blocks so a value can come back later (A,B,A = three segments), x 5 predicates returning fresh equal-but-not-identical objects (int, 1-tuple, str, '
            'int > 2^40, int > 2^53 whose neighbours round to the same double, float, numpy.int64 / numpy.float64 (whose != returns numpy.bool_), bool, None / int mix, negative ints, parity); then random long inputs under group_by with interleaved keys, nested in roll (w != s, w == s), split, time_split, group_by>roll. '
            'non-trivial = some key lifetime has >= 2 segments; distinct = hash of the case')
    RULE += PRELUDE_RULE
    ASSUMPTIONS = ['predicate values are compared with != only (no hashing)']
    ANCHORS = ['rxsci/data/split.py', 'rxsci/operators/multiplex.py']
    REQUIRED_TAGS = ['consumer-runs-a-pipeline-built-with-the-same-operator-object', 'top', 'group', 'roll', 'roll_eq', 'split', 'pred=divt', 'pred=divs', 'pred=divbig', 'pred=divhuge', 'pred=divnp', 'pred=divbool', 'pred=divnone', 'pred=divnan', 'pred=divnant', 'pred=divobj', 'pred=divobjt', 'pred=divtag', 'pred=divcls', 'pred=divsloppy', 'single-run', 'runs-of-1', 'empty-key'] + ['operator-object-used-in-two-pipelines'] + ['history-fed-more-than-the-judged-stream'] + PRELUDE_TAGS + ['prelude:overlap']
    REQUIRED_OBSERVED = ['child_lifetimes_checked', 'parent_lifetimes_checked']

    def generate(self, rng, tier, shard, nshards):
        return with_prelude(with_reuse(self._generate(rng, tier, shard, nshards)), rng, overlap=True)

    def _generate(self, rng, tier, shard, nshards):
        return interleave(self._box(tier, shard, nshards), self._nested(rng, tier))

    def _box(self, tier, shard, nshards):
        m = 9 if tier == 'quick' else 11
        idx = 0
        for n in range(0, m + 1):
            for comp in compositions(n):
                idx += 1
                if idx % nshards != shard:
                    continue
                k = 4
                items, block = [], 0
                for r, ln in enumerate(comp):
                    block = (block + 1 + (r * 7 + ln) % 2) % 3 if r else 0
                    items += [block * k + (j % k) for j in range(ln)]
                yield {'pred': PREDS[idx % len(PREDS)] % k, 'parent': 'top', 'parent_node': None, 'items': items}
        self.box_done = 1

    def _nested(self, rng, tier):
        k = 1500 if tier == 'quick' else 10 ** 7
        names = ['group', 'roll', 'roll_eq', 'split', 'time_split', 'group>roll', 'roll>group', 'top']
        for j in range(k):
            name = names[j % len(names)]
            n = rng.choice([0, 1, 3, 10, 25, 60, 120]) if j % 80 != 40 else rng.choice([1500, 3000])
            hi = rng.choice([6, 12, 40]) if n < 1000 else 600
            items = [rng.randint(0, hi) for _ in range(n)]
            if name == 'time_split' or rng.random() < 0.3:
                items.sort()
            yield {'pred': rng.choice(PREDS) % rng.randint(1, 6), 'parent': name,
                   'parent_node': windows.PARENTS[name](rng), 'items': items}

    def evaluate(self, case):
        out = Outcome()
        items = case['items']
        pred = progs.fn(case['pred'])
        out.tags += [case['parent'].split('>')[0], 'pred=' + case['pred'].split(':')[0]]
        if case.get('reuse'):
            out.tags.append('operator-object-used-in-two-pipelines')
        ob = windows.observe(case['parent_node'], ['split', case['pred'], None], items, prelude=case.get('prelude'), reuse=bool(case.get('reuse')))
        prelude_tags(case, out)
        if ob.snap.err is not None or not ob.snap.done:
            return out.fail('split:stream-error', error=repr(ob.snap.err), done=ob.snap.done)
        if ob.odd or ob.orphans:
            return out.fail('split:events-outside-a-segment-lifetime', odd=[repr(o) for o in ob.odd[:5]],
                            orphans=[repr(c.key) for c in ob.orphans[:5]])
        if ob.monitor.violations:
            return out.fail('split:mux-protocol-violated', violations=ob.monitor.violations[:3])
        if not ob.parents and items:
            return out.fail('split:no-parent-lifetime-observed')
        for p in ob.parents:
            exp = expected_segments(p.xs, pred)
            out.observed['parent_lifetimes_checked'] += 1
            if len(exp) >= 2:
                out.nontrivial = True
            if len(exp) == 1:
                out.tags.append('single-run')
            if any(len(e['idx']) == 1 for e in exp):
                out.tags.append('runs-of-1')
            if not p.xs:
                out.tags.append('empty-key')
            if windows.check_partition(out, ob, p, exp, 'split'):
                return out
        out.observed['events_logged'] += len(ob.log)
        if case['parent'] == 'top' and len(items) <= 150 and not out.failures:
            out.tags.append('consumer-runs-a-pipeline-built-with-the-same-operator-object')
            windows.nested_consumer(['split', case['pred'], None], items, items[:(len(items) * 2) // 3 + 1], out, 'split')
        return out

    box_done = 0

    def extra_evidence(self):
        return {'shards_that_enumerated_their_part_of_the_box_completely': self.box_done}

    def shrink(self, case):
        yield from shrink_prelude(case)
        items = case['items']
        for k in range(len(items)):
            yield dict(case, items=items[:k] + items[k + 1:])
        if case['parent'] != 'top':
            yield dict(case, parent='top', parent_node=None)


CHECK = C06()

"""C19 - JSON-lines dump/load round-trips objects, with or without compression.

Events : items / completion / error of load() and load_from_file(); completion of dump_to_file().
Oracle : objects read == objects written, in order, one item per object (type-aware equality).
"""
import io
import os
import random
import shutil
import tempfile

import rx

from ..common import FILE_NAME_TAGS, Check, Outcome, Snap, subscribe, subscribe2, bootstrap, norm, WORK

rs = bootstrap()
from ..progs import call          # noqa: E402  (positional / keyword calling conventions, see progs.call)
import rxsci.framing.line as line                      # noqa: E402

STR_ALPHA = {
    'plain': 'abc XYZ09',
    'special': 'a\n\r\t"\\/\x00\x1f\u2028\u2029 ,:{}[]',
    'latin': 'a\xe9\xff\xf1',
    'bmp': '\u20ac\u4e2d\u0301\ufffda',
    'astral': '\U0001f600\U0001d11e\U0010ffffa',
    # U+FEFF as ordinary content (text taken from BOM-prefixed files): dense, so that in a multi-chunk file one of them is the
    # first character of a 64 KiB read chunk
    'bom': '\ufeff\ufeff\ufeff\ufeffa',
}


def gen_value(r, depth, alpha, maxstr):
    k = r.random()
    if depth > 0 and k < 0.15:
        return [gen_value(r, depth - 1, alpha, maxstr) for _ in range(r.randint(0, 4))]
    if depth > 0 and k < 0.3:
        return {gen_str(r, alpha, 6) or 'k': gen_value(r, depth - 1, alpha, maxstr) for _ in range(r.randint(0, 3))}
    if k < 0.4:
        return r.choice([0, 1, -1, 2**31, -2**31, 2**53 + 1, 2**63 - 1, -2**63, r.randint(-10**6, 10**6)])
    if k < 0.55:
        return r.choice([0.0, -0.0, 1.5, -2.25, 1e-300, 1.7976931348623157e308, 5e-324, 0.1, 1 / 3,
                         r.uniform(-1e6, 1e6), r.random() * 10 ** r.randint(-20, 20)])
    if k < 0.62:
        return r.choice([True, False])
    if k < 0.7:
        return None
    return gen_str(r, alpha, maxstr)


def gen_str(r, alpha, maxlen):
    n = r.choice([0, 1, 2, r.randint(0, maxlen)])
    a = STR_ALPHA[alpha]
    return ''.join(r.choice(a) for _ in range(n))


def build_objs(spec):
    r = random.Random(spec['oseed'])
    objs = []
    if spec.get('regular'):
        # tens of thousands of near-identical records: several MiB of text that compress to a few KiB,
        # so ONE compressed read chunk inflates to far more than any internal buffer
        objs = [{'id': 0 if spec.get('same') else i, 'name': 'record', 'value': 1.5, 'tags': ['a', 'b'], 'ok': True} for i in range(spec['n'])]
        if spec.get('long'):
            objs[len(objs) // 2]['blob'] = ('xy' * (spec['long'] // 2)) if spec['long'] < (1 << 20) else 'x' * spec['long']
        return objs
    for i in range(spec['n']):
        alpha = spec['alpha'] if spec['alpha'] != 'mixed' else r.choice(list(STR_ALPHA))
        o = {}
        for f in range(r.randint(0, spec.get('fields', 4))):
            o[gen_str(r, alpha, 8) or 'f%d' % f] = gen_value(r, 2, alpha, spec['maxstr'])
        if i == 0 and spec.get('pad'):
            o['pad'] = 'p' * spec['pad']
        if spec.get('long') and r.random() < 0.5:
            o['long'] = ''.join(r.choice(STR_ALPHA[alpha]) for _ in range(spec['long']))
        objs.append(o)
    return objs


class MemFS:
    """open_obj override: an in-memory file system honouring the documented prototype
    open_obj(filename, mode, encoding)."""

    def __init__(self, short_reads=None):
        self.files = {}
        self.calls = []
        self.short_reads = short_reads      # int: read(size) returns at most this many bytes (a raw, unbuffered stream)
        self.short_reads_served = 0

    def open(self, filename, mode, encoding=None):
        self.calls.append((filename, mode, encoding))
        fs = self

        class Raw(io.BytesIO):
            """a raw stream (socket, pipe, TLS record reader, remote storage): read(size) may return fewer bytes than
            asked although more follow; only b'' means end of data"""
            def read(self_inner, size=-1):
                if size is None or size < 0 or fs.short_reads is None:
                    return super().read(size)
                n = min(size, fs.short_reads)
                data = super().read(n)
                if n < size and data:
                    fs.short_reads_served += 1
                return data

        class W(io.BytesIO):
            def close(self_inner):
                fs.files[filename] = self_inner.getvalue()
                super().close()
        if 'w' in mode:
            return W()
        return Raw(self.files[filename])


class C19(Check):
    ID = 'C19'
    LEVEL = 'exploration'
    BUDGET = {'quick': 75, 'thorough': 240}
    RULE = ('case = (object list spec: count, string alphabet (plain / JSON-special incl. \\n \\r " \\\\ NUL U+2028 / Latin-1 / BMP / astral), '
            'max string length, padding 0..3 so chunk boundaries hit every offset mod 4, data seed; compression None/gzip/zstd; '
            'transport: dump|load operators on a stream, re-framed stream, file path, file object, custom open_obj in-memory FS). '
            'Object counts 0, 1, few, and enough to fill 1..5 read chunks of 64 KiB. non-trivial = >= 2 objects; distinct = hash of the case')
    ASSUMPTIONS = ['orjson / json are trusted as JSON codecs; floats are finite; top-level items are dicts (domain of the property)']
    ANCHORS = ['rxsci/container/json.py', 'rxsci/io/file.py', 'rxsci/framing/line.py', 'rxsci/data/codec.py']
    REQUIRED_TAGS = FILE_NAME_TAGS + ['none', 'gzip', 'zstd', 'stream', 'path', 'fileobj', 'open_obj', 'empty', 'multi-chunk', 'astral', 'whole-document', 'over-1MiB-compressible', 'gzip-ratio>32-over-2MiB', 'pushed-source', 'open_obj-with-short-reads', 'bom', 'open_obj-stdlib-codec', 'open_obj-stdlib-codec-over-several-read-chunks', 'loader-built-before-the-dump', 'target-exists-empty']
    REQUIRED_OBSERVED = ['objects_compared', 'twin_dumps_read_back']

    def __init__(self):
        self.tmp = None

    def _tmpdir(self):
        if self.tmp is None or not os.path.isdir(self.tmp):
            os.makedirs(WORK, exist_ok=True)
            self.tmp = tempfile.mkdtemp(prefix='c19-', dir=WORK)
            import atexit
            atexit.register(shutil.rmtree, self.tmp, True)
        return self.tmp

    def generate(self, rng, tier, shard, nshards):
        # the file-name classes (common.FILE_NAME_CLASSES) are taken in turn by the cases that write to a path
        turn = shard
        for case in self._gen_cases(rng, tier, shard, nshards):
            if case.get('mode') == 'path':
                case = dict(case, fsel=turn)
                turn += 1
            yield case

    def _gen_cases(self, rng, tier, shard, nshards):
        n = 150 if tier == 'quick' else 10 ** 7
        comps = [None, 'gzip', 'zstd']
        modes = ['stream', 'reframed', 'path', 'fileobj', 'open_obj', 'whole']
        for k in range(n):
            if k in (9, 10, 11) and shard == 0:
                # a stdlib opener as open_obj (its file object TRANSFORMS the data) on decoded content of several 64 KiB read chunks
                yield {'objs': {'n': 1501 + 3 * (k - 9), 'alpha': 'plain', 'maxstr': 200, 'pad': 0, 'long': 300, 'oseed': rng.randrange(1 << 30), 'fields': 4},
                       'compression': None, 'mode': 'open_obj'}
                continue
            if k % 40 == 4:
                # (codec, identical records?, one long string): a 64 KiB compressed read chunk inflating to > 2 MiB needs
                # a ratio above 32, i.e. identical records or a multi-MiB run inside one string
                j = k // 40
                codec, same, long_ = [('gzip', True, 0), ('zstd', True, 0), ('gzip', False, 3 << 20), (None, False, 150000),
                                      ('zstd', False, 3 << 20), ('gzip', False, 0), (None, True, 0)][j % 7]
                yield {'objs': {'n': rng.choice([30000, 45000]) if not same else rng.choice([50000, 60000]), 'alpha': 'plain', 'maxstr': 3, 'pad': 0,
                                'long': long_, 'same': same, 'oseed': rng.randrange(1 << 30), 'regular': True},
                       'compression': codec, 'mode': ['path', 'fileobj', 'open_obj'][(j // 7) % 3]}
                continue
            shape = k % 8
            if shape == 0:
                cnt = 0
            elif shape == 1:
                cnt = 1
            elif shape in (2, 3):
                cnt = rng.randint(2, 12)
            elif shape in (4, 5):
                cnt = rng.randint(20, 200)
            else:
                cnt = rng.randint(300, 1200)
            alpha = rng.choice(list(STR_ALPHA) + ['mixed'])
            if shape >= 6 and (k // 8) % 3 == 0:
                alpha = 'bom'       # (a multi-chunk file full of U+FEFF)
            if k < 10:
                alpha = ['astral', 'special', 'bmp', 'latin', 'plain'][k % 5]
            long = rng.choice([0, 0, 300, 3000]) if shape >= 4 else 0
            if alpha == 'bom':
                long = 3000
            yield {'objs': {'n': cnt, 'alpha': alpha, 'maxstr': rng.choice([3, 20, 200]), 'pad': k % 4,
                            'long': long, 'oseed': rng.randrange(1 << 30), 'fields': rng.choice([1, 4, 8])},
                   'compression': comps[k % 3], 'mode': modes[(k // 3) % 6]}

    def evaluate(self, case):
        from ..common import in_dir
        with in_dir(self._tmpdir()):
            return self._evaluate(case)

    def _evaluate(self, case):
        out = Outcome()
        objs = build_objs(case['objs'])
        objs_before = repr(objs) if not case['objs'].get('regular') else None      # (the dump does not own the caller's objects)
        comp = case['compression']
        mode = case['mode']
        out.tags += [comp or 'none', case['objs']['alpha']]
        out.tags.append('stream' if mode in ('stream', 'reframed') else 'path' if mode == 'whole' else mode)
        if not objs:
            out.tags.append('empty')
        if len(objs) >= 2:
            out.nontrivial = True
        if case['objs'].get('regular'):
            out.tags.append('over-1MiB-compressible')
            if comp == 'gzip' and (case['objs'].get('same') or case['objs'].get('long', 0) >= (1 << 21)):
                out.tags.append('gzip-ratio>32-over-2MiB')
        J = rs.container.json

        if mode in ('stream', 'reframed'):
            d = subscribe2(rx.from_(objs).pipe(J.dump()), out, 'dump')
            if d.err is not None or not d.done:
                return out.fail('dump-failed', error=repr(d.err))
            if len(d.out) != len(objs):
                return out.fail('dump-not-one-line-per-object', lines=len(d.out), objects=len(objs))
            bad = [ln for ln in d.out if not isinstance(ln, str) or ln.count('\n') != 1 or not ln.endswith('\n')]
            if bad:
                return out.fail('dump-line-framing-broken', line=bad[0])
            if mode == 'stream':
                src = rx.from_(d.out)
            else:
                blob = ''.join(d.out)
                r = random.Random(case['objs']['oseed'])
                cuts = sorted(set(r.randrange(1, len(blob)) for _ in range(min(20, max(0, len(blob) - 1))))) if len(blob) > 1 else []
                from ..chunking import cut
                src = rx.from_(cut(blob, cuts)).pipe(line.unframe())
            got = subscribe2(src.pipe(J.load()), out, 'load', same=lambda x, y: repr(x) == repr(y))
            size = sum(len(x) for x in d.out)
        elif mode == 'whole':
            # a single JSON document read back with lines=False (the file is decoded and parsed as a whole)
            objs = objs[:1] or [{'only': 1}]
            objs_before = repr(objs)
            path = os.path.join(self._tmpdir(), 'w.json')
            if os.path.exists(path):
                os.unlink(path)
            w = subscribe(rx.from_(objs).pipe(call(J.dump_to_file, [('filename', path), ('newline', '\n'), ('encoding', 'utf-8'), ('compression', comp)])), Snap())
            if w.err is not None or not w.done:
                return out.fail('dump_to_file-failed', error=repr(w.err), done=w.done)
            if not os.path.exists(path):
                return out.fail('dump_to_file-completed-without-creating-the-file', objects=len(objs), compression=comp)
            size = os.path.getsize(path)
            got = subscribe2(call(J.load_from_file, [('filename', path), ('lines', False), ('skip', 0), ('ignore_error', False), ('encoding', 'utf-8'), ('compression', comp)]), out, 'load_from_file(lines=False)', same=lambda x, y: repr(x) == repr(y))
            out.tags.append('whole-document')
        else:
            size = None
            if mode == 'path':
                from ..common import file_path
                path = file_path(self._tmpdir(), 'f.json', '.json', case.get('fsel', 0), out)
                if os.path.exists(path):
                    os.unlink(path)
                prior = case['objs']['oseed'] % 3
                if prior == 1:
                    # the target already exists (an earlier dump): it must be replaced, not appended to or kept
                    with open(path, 'wb') as f0:
                        f0.write(b'{"stale": true}\n' * 3)
                    out.tags.append('overwrites-existing-file')
                elif prior == 2:
                    # ... or exists and is empty (mkstemp / NamedTemporaryFile(delete=False) / a touched file / an earlier empty dump)
                    open(path, 'wb').close()
                    out.tags.append('target-exists-empty')
                early = None
                if (case['objs']['oseed'] // 3) % 2:
                    # observables are lazy: the loader is BUILT before the dump runs (rx.concat(dump, load), a loader built once and
                    # subscribed after each dump) and subscribed after it
                    early = call(J.load_from_file, [('filename', path), ('lines', True), ('skip', 0), ('ignore_error', False), ('encoding', 'utf-8'), ('compression', comp)])
                    out.tags.append('loader-built-before-the-dump')
                if len(objs) % 2:
                    from ..progs import dump_pushed
                    out.tags.append('pushed-source')
                    path2 = os.path.join(self._tmpdir(), 'twin.json')
                    if os.path.exists(path2):
                        os.unlink(path2)
                    w = dump_pushed(lambda o: o.pipe(call(J.dump_to_file, [('filename', path), ('newline', '\n'), ('encoding', 'utf-8'), ('compression', comp)])), objs, path, out, 'json.dump_to_file',
                                    twin=lambda o: o.pipe(call(J.dump_to_file, [('filename', path2), ('newline', '\n'), ('encoding', 'utf-8'), ('compression', comp)])))
                    if out.failures:
                        return out
                    # the twin dump - same codec, another file, alive at the same time - must hold the same objects
                    tw = subscribe(call(J.load_from_file, [('filename', path2), ('lines', True), ('skip', 0), ('ignore_error', False), ('encoding', 'utf-8'), ('compression', comp)]), Snap())
                    out.observed['twin_dumps_read_back'] += 1
                    if tw.err is not None or not tw.done or repr(tw.out) != repr(objs):
                        return out.fail('a-second-dump-alive-at-the-same-time-differs', error=repr(tw.err), n_got=len(tw.out), n_want=len(objs), compression=comp)
                else:
                    w = subscribe(rx.from_(objs).pipe(call(J.dump_to_file, [('filename', path), ('newline', '\n'), ('encoding', 'utf-8'), ('compression', comp)])), Snap())
                if w.err is not None or not w.done:
                    return out.fail('dump_to_file-failed', error=repr(w.err), done=w.done)
                if not os.path.exists(path):
                    return out.fail('dump_to_file-completed-without-creating-the-file', objects=len(objs), compression=comp)
                size = os.path.getsize(path)
                got = subscribe2(early if early is not None else call(J.load_from_file, [('filename', path), ('lines', True), ('skip', 0), ('ignore_error', False), ('encoding', 'utf-8'), ('compression', comp)]), out, 'load_from_file', same=lambda x, y: repr(x) == repr(y))
            elif mode == 'fileobj':
                path = os.path.join(self._tmpdir(), 'g.json')
                with open(path, 'wb') as f:
                    w = subscribe(rx.from_(objs).pipe(call(J.dump_to_file, [('filename', f), ('newline', '\n'), ('encoding', 'utf-8'), ('compression', comp)])), Snap())
                if w.err is not None or not w.done:
                    return out.fail('dump_to_file-failed', error=repr(w.err), done=w.done)
                size = os.path.getsize(path)
                with open(path, 'rb') as f:
                    got = subscribe(call(J.load_from_file, [('filename', f), ('lines', True), ('skip', 0), ('ignore_error', False), ('encoding', 'utf-8'), ('compression', comp)]), Snap())
            elif mode == 'open_obj' and len(objs) % 3 == 1:
                # a stdlib opener as open_obj (formats rxsci has no codec for): the object it returns TRANSFORMS the data, and its
                # fileno() is that of a file of another size
                import bz2
                import gzip as _gzip
                import lzma
                opener = [bz2.open, lzma.open, _gzip.open][(len(objs) // 3) % 3]
                out.tags.append('open_obj-stdlib-codec')
                if sum(len(repr(o)) for o in objs) > 2 * 65536:
                    out.tags.append('open_obj-stdlib-codec-over-several-read-chunks')
                path = os.path.join(self._tmpdir(), 'o.bin')
                if os.path.exists(path):
                    os.unlink(path)
                w = subscribe(rx.from_(objs).pipe(call(J.dump_to_file, [('filename', path), ('newline', '\n'), ('encoding', 'utf-8'), ('compression', comp), ('open_obj', opener)])), Snap())
                if w.err is not None or not w.done:
                    return out.fail('dump_to_file-failed', error=repr(w.err), done=w.done, open_obj=opener.__module__)
                size = os.path.getsize(path)
                got = subscribe(call(J.load_from_file, [('filename', path), ('lines', True), ('skip', 0), ('ignore_error', False), ('encoding', 'utf-8'), ('compression', comp), ('open_obj', opener)]), Snap())
            else:
                fs = MemFS(short_reads=[None, 1000, 16384, 65535, 7][len(objs) % 5])
                if fs.short_reads:
                    out.tags.append('open_obj-with-short-reads')
                w = subscribe(rx.from_(objs).pipe(call(J.dump_to_file, [('filename', 'mem.json'), ('newline', '\n'), ('encoding', 'utf-8'), ('compression', comp), ('open_obj', fs.open)])), Snap())
                if w.err is not None or not w.done:
                    return out.fail('dump_to_file-failed', error=repr(w.err), done=w.done)
                if 'mem.json' not in fs.files:
                    return out.fail('open_obj-file-never-closed', calls=fs.calls)
                size = len(fs.files['mem.json'])
                got = subscribe(call(J.load_from_file, [('filename', 'mem.json'), ('lines', True), ('skip', 0), ('ignore_error', False), ('encoding', 'utf-8'), ('compression', comp), ('open_obj', fs.open)]), Snap())
                if len(fs.calls) != 2:
                    return out.fail('open_obj-not-used-for-both', calls=fs.calls)
            if w.out:
                return out.fail('dump_to_file-emitted-items', n=len(w.out))
            out.observed['file_bytes'] += size
            if size > 65536:
                out.tags.append('multi-chunk')
        if any(ord(c) > 0xffff for c in repr(objs)):
            out.tags.append('astral')

        out.observed['source_objects_compared_after_the_dump'] += len(objs)
        if objs_before is not None and repr(objs) != objs_before:
            return out.fail('dump-changed-the-objects-it-was-given', before=objs_before[:300], after=repr(objs)[:300])
        if got.err is not None:
            return out.fail('load-error', error=repr(got.err), size=size)
        if not got.done:
            return out.fail('load-no-completion', size=size)
        if len(got.out) != len(objs):
            return out.fail('object-count-differs', want=len(objs), got=len(got.out), size=size)
        for i, (a, b) in enumerate(zip(objs, got.out)):
            out.observed['objects_compared'] += 1
            if norm(a) != norm(b):
                return out.fail('object-differs', index=i, want=a, got=b, size=size)
        return out

    def shrink(self, case):
        n = case['objs']['n']
        for m in (n // 2, n - 1):
            if 0 <= m < n:
                yield dict(case, objs=dict(case['objs'], n=m))
        if case['objs'].get('long'):
            yield dict(case, objs=dict(case['objs'], long=0))
        if case['objs']['maxstr'] > 3:
            yield dict(case, objs=dict(case['objs'], maxstr=3))


CHECK = C19()

"""C09 - scan / reduce algebra: running folds, final fold, and per-key seed isolation.

Events : one real-time log holding (H) create/item/completed in front of the scan, (F) every call of
         the instrumented accumulator / seed factory / terminator with the very objects passed and
         returned, (T) the scan's emissions snapshotted at emission time and (R) the emitted objects.
Oracle : per key lifetime - running output i == fold(seed0, items[:i+1]) with a fresh seed0; the state
         handed to the accumulator at call i is that lifetime's own previous result; reduce emits
         exactly one item (the last fold, or the seed for an empty key); a terminator is applied once,
         at completion, on the final accumulator; a mutable accumulator object of one lifetime is
         never the user's seed object nor an object seen by another lifetime; the user's seed object
         is never mutated; last streaming value == reduce value.  Operators defined through scan are
         compared with their definition per lifetime.
"""
import copy
import random
from array import array

import rx
import rx.operators as rxops
import distogram

from ..common import Check, Outcome, Snap, subscribe, bootstrap, norm, with_prelude, prelude_tags, shrink_prelude, PRELUDE_TAGS, PRELUDE_RULE
from ..muxmon import ttap, tagged_lifetimes
from .. import progs, model, windows

rs = bootstrap()


# accumulator / seed / terminator vocabulary: name -> (fn, mutable accumulator?)
def _append_mut(a, i):
    a.append(i)
    return a


def _dict_mut(a, i):
    a[i % 3] = a.get(i % 3, 0) + i
    return a


def _arr_mut(a, i):
    a.append(i)
    return a


def _mark_mut(a):
    a.append(-1)
    return a


ACCS = {
    'add': (lambda a, i: a + i, False),
    'addf': (lambda a, i: a + i / 2, False),
    'pair': (lambda a, i: (a[0] + i, a[1] + 1), False),
    'append_new': (lambda a, i: a + [i], True),
    'append_mut': (_append_mut, True),
    'dict_mut': (_dict_mut, True),
    'arr_mut': (_arr_mut, True),
    'nested_mut': (lambda a, i: (a[0].append(i), (a[0], a[1] + 1))[1], True),
    'nested_dict_mut': (lambda a, i: (a['seen'].append(i), a.__setitem__('n', a['n'] + 1), a)[2], True),
    # returns None for some prefixes: None is a legitimate accumulator value, not "no state yet"
    'box_mut': (lambda a, i: (a.items.append(i), a)[1], True),
    'tbox_mut': (lambda a, i: (a[0].items.append(i), (a[0], a[1] + 1))[1], True),
    # a tally in a defaultdict: the fold only works if every key's copy of the seed keeps its default_factory
    'ddict_mut': (lambda a, i: (a.__setitem__(i % 3, a[i % 3] + 1), a)[1], True),
    'maybe_none': (lambda a, i: None if i % 3 == 2 else ((a if a is not None else (50, 50))[0] + i, (a if a is not None else (50, 50))[1] + 1), False),
}
SEEDS = {
    # name -> (make user seed argument, is factory)
    'zero': (lambda: 0, False), 'five': (lambda: 5, False), 'zerof': (lambda: 0.0, False), 'pair00': (lambda: (0, 0), False),
    'list_value': (lambda: [], False), 'list_value_nonempty': (lambda: [100], False),
    'list_factory': (lambda: list, True), 'dict_factory': (lambda: dict, True),
    'arr_factory': (lambda: (lambda: array('q')), True), 'dict_value': (lambda: {}, False),
    'box_value': (lambda: progs.Box(), False), 'tbox_value': (lambda: (progs.Box(), 0), False),
    'nested_value': (lambda: ([], 0), False), 'nested_dict_value': (lambda: {'n': 0, 'seen': []}, False),
    'ddict_value': (lambda: __import__('collections').defaultdict(int), False), 'odict_value': (lambda: __import__('collections').OrderedDict(), False),
}
TERMS = {
    None: None,
    'neg': lambda a: -a,
    'plus7': lambda a: a + 7,
    'mark_new': lambda a: a + [-1],
    'mark_mut': _mark_mut,
    'sorted': lambda a: sorted(a),
    'swap': lambda a: (a[1], a[0]),
    'negf': lambda a: -a,
    'clear_dict': lambda a: {k: -v for k, v in a.items()},
    # a terminator whose RESULT is legitimately None for some keys ('not enough data for this key'): None is what is emitted then
    # (only on an object-typed state: the multiplexed scan stores the terminator's result in the key's state, and a state typed by an
    # int seed cannot hold None - a value a typed state cannot hold is outside every statement)
    'none_if_short': lambda a: None if len(a) < 3 else len(a),
}
# (acc, seed, terminators allowed)
COMBOS = [
    ('add', 'zero', [None, 'neg', 'plus7']), ('add', 'five', [None, 'neg']), ('addf', 'zerof', [None, 'negf']),
    ('pair', 'pair00', [None, 'swap']),
    ('append_new', 'list_value', [None, 'mark_new', 'sorted', 'none_if_short']), ('append_new', 'list_value_nonempty', [None, 'mark_new']),
    ('append_mut', 'list_value', [None, 'mark_mut', 'mark_new']), ('append_mut', 'list_value_nonempty', [None, 'mark_mut']),
    ('append_mut', 'list_factory', [None, 'mark_mut', 'sorted']),
    ('dict_mut', 'dict_factory', [None, 'clear_dict']), ('dict_mut', 'dict_value', [None]),
    ('arr_mut', 'arr_factory', [None]),
    ('maybe_none', 'pair00', [None]),
    ('nested_mut', 'nested_value', [None]),
    ('box_mut', 'box_value', [None]),
    ('tbox_mut', 'tbox_value', [None]),
    ('nested_dict_mut', 'nested_dict_value', [None]),
    ('ddict_mut', 'ddict_value', [None]),
]
NAMED = [['count', False], ['count', True], ['sum', False], ['sum', True], ['mean', False], ['mean', True], ['min', False], ['min', True],
         ['max', False], ['max', True], ['variance', False], ['variance', True], ['to_list'], ['to_array', 'q'], ['batch', 2], ['batch', 3],
         ['duc', None], ['duc', 'mod:2'], ['progress', 2, False], ['dist.update', False], ['dist.update', True]]
NAMED_SCALE = [['batch', 257], ['batch', 1024], ['batch', 300], ['count', True], ['to_list'], ['to_array', 'q'], ['sum', False], ['max', True]]

CONTEXTS = {
    'plain': None, 'mux': None,
    'group': lambda r: ['group_by', 'mod:%d' % r.randint(2, 4), None],
    'roll': lambda r: ['roll', r.randint(1, 6), r.randint(1, 3), None],
    'roll_eq': lambda r: (lambda w: ['roll', w, w, None])(r.randint(1, 4)),
    'split': lambda r: ['split', 'div:%d' % r.randint(2, 5), None],
    'time_split': lambda r: ['time_split', {'active': 6, 'inactive': None, 'closing': 'modeq:4:0', 'include': True}, None],
    'group>roll': lambda r: ['group_by', 'mod:2', [['roll', r.randint(2, 4), r.randint(1, 4), None]]],
}


class Probe:
    """instrumented accumulator, seed factory and terminator, logging into the shared log"""

    def __init__(self, log, acc, seedname, term):
        self.log = log
        self.accf = ACCS[acc][0]
        mk, self.is_factory = SEEDS[seedname]
        self.factory_form = 'function'
        self.user_seed = mk()
        self.seed_backup = None if self.is_factory else copy.deepcopy(self.user_seed)
        self.termf = TERMS[term]
        self.keep = []          # keeps every object alive so id() stays unique within the case

    def accumulator(self, a, i):
        before = copy.deepcopy(a)
        r = self.accf(a, i)
        self.keep += [a, r]
        self.log.append(('F', 'acc', a, before, i, r))
        return r

    def seed_arg(self):
        if not self.is_factory:
            return self.user_seed

        def factory():
            v = self.user_seed()
            self.keep.append(v)
            self.log.append(('F', 'seed', v))
            return v
        # a factory is anything callable: a function, but also a functools.partial (a parametrised factory) or an object
        # with __call__ - neither is a routine nor a class
        if self.factory_form == 'partial':
            import functools
            return functools.partial(factory)
        if self.factory_form == 'callable_object':
            class _Factory:
                def __call__(self_inner):
                    return factory()
            return _Factory()
        return factory

    def terminator(self):
        if self.termf is None:
            return None

        def term(a):
            before = copy.deepcopy(a)
            r = self.termf(a)
            self.keep += [a, r]
            self.log.append(('F', 'term', a, before, r))
            return r
        return term

    def fresh_seed(self):
        return self.user_seed() if self.is_factory else copy.deepcopy(self.seed_backup)


def run_ctx(ctx_node, op_builder, items, log, prelude=None):
    """ctx( [ H , op , T(snapshot) , R(raw refs) ] ) on a multiplexed source"""
    # (behind the taps a stateful pass-through: it fails on an event that lacks the section's store)
    inner_ops = [ttap(log, 'H'), op_builder(), ttap(log, 'T'), ttap(log, 'R', deep=False), rs.ops.scan(lambda a, i: i, None)]
    if ctx_node is None:
        ops_ = inner_ops
    else:
        prog, _ = windows.nest(ctx_node, [['identity']])
        ops_ = _build_with_inner(prog, inner_ops)
    return progs.run_obs(lambda src: src.pipe(rs.state.with_memory_store(ops_)), items, prelude=prelude, logs=(log,))


def _build_with_inner(prog, inner_ops):
    """build a chain of nested single-child contexts whose innermost pipeline is `inner_ops`"""
    node = prog[0]
    inner = node[-1]
    if inner == [['identity']]:
        child = inner_ops
    else:
        child = _build_with_inner(inner, inner_ops)
    name = node[0]
    if name == 'group_by':
        return [rs.ops.group_by(progs.fn(node[1]), child)]
    if name == 'roll':
        return [rs.data.roll(node[1], node[2], child)]
    if name == 'split':
        return [rs.data.split(progs.fn(node[1]), child)]
    cfg = node[1]
    return [rs.data.time_split(time_mapper=progs.fn('id'), active_timeout=cfg.get('active'), inactive_timeout=cfg.get('inactive'),
                               closing_mapper=progs.fn(cfg['closing']) if cfg.get('closing') else None,
                               include_closing_item=cfg.get('include', True), pipeline=child)]


def is_mutable(x):
    return isinstance(x, (list, dict, array, set, progs.Box))


class C09(Check):
    ID = 'C09'
    LEVEL = 'exploration'
    BUDGET = {'quick': 75, 'thorough': 240}
    RULE = ('case = (variant, context, input). Variants: 15 accumulator/seed combinations (one whose accumulator returns None for some prefixes, two whose seed VALUE nests a mutable container inside a tuple / dict, two whose seed is a hashable-but-mutable user object) (immutable int/float/tuple folds; list building by copy and by in-place append; in-place dict and array; '
            'seeds given as values - incl. a non-empty mutable value - and as factories) x reduce on/off x terminators (pure and in-place) - and the 21 operators defined through scan '
            '(count, sum, mean, min, max, variance with reduce on/off, to_list, to_array, batch, distinct_until_changed, progress, dist.update). Contexts: plain observable, one multiplexed key, '
            'group_by with interleaved keys, roll (w != s and w == s: key slots reused by successive lifetimes), split, time_split with empty windows (empty keys), group_by>roll. '
            'non-trivial = >= 2 key lifetimes with items (and a mutable accumulator for the generic variants); distinct = hash of the case')
    RULE += PRELUDE_RULE
    ASSUMPTIONS = ['accumulators return values of the seed\'s type; mean(reduce) of an empty key is outside the domain',
                   'dist.update is compared through distogram.count / bounds / mean / bins against a reference fold with the same library']
    ANCHORS = ['rxsci/operators/scan.py', 'rxsci/operators/count.py', 'rxsci/data/to_list.py', 'rxsci/data/to_array.py', 'rxsci/math/dist/__init__.py']
    REQUIRED_TAGS = ['terminator-whose-result-is-None-for-some-keys', 'plain', 'mux', 'group', 'roll', 'roll_eq', 'split', 'time_split', 'generic', 'named', 'reduce', 'streaming', 'terminator',
                     'factory', 'value-seed', 'mutable', 'empty-lifetime', 'scale', 'numpy-items', 'numpy-vector-items', 'reduce-flag-given-as-a-non-bool', 'factory-that-is-not-a-function', 'exact-number-items'] + ['history-fed-more-than-the-judged-stream'] + PRELUDE_TAGS + ['op=' + n[0] for n in NAMED]
    REQUIRED_OBSERVED = ['triples_of_staggered_subscriptions', 'accumulator_calls', 'terminator_calls', 'factory_calls', 'lifetimes_checked', 'identity_checks']

    def generate(self, rng, tier, shard, nshards):
        r3 = random.Random(rng.randrange(1 << 30))
        for case in self._generate0(rng, tier, shard, nshards):
            if r3.random() < 0.12 and len(case.get('items', ())) <= 100:
                case = dict(case, reduce_as=r3.choice(['numpy', 'int']))
            yield case

    def _generate0(self, rng, tier, shard, nshards):
        return with_prelude(self._generate(rng, tier, shard, nshards), rng, size=lambda c: len(c['items']))

    def _generate(self, rng, tier, shard, nshards):
        n = 7500 if tier == 'quick' else 10 ** 7
        ctxs = list(CONTEXTS)
        for k in range(n):
            ctx = ctxs[k % len(ctxs)]
            node = CONTEXTS[ctx](rng) if CONTEXTS[ctx] else None
            ln = rng.choice([0, 1, 2, 5, 12, 30])
            items = [rng.randint(0, 9) for _ in range(ln)]
            if k % 450 == 15:
                # scale: lifetimes of more than 1024 items, batch sizes beyond the small-int cache, values beyond 2**31
                ctx = ['plain', 'mux', 'group', 'roll_eq'][(k // 450) % 4]
                node = {'plain': None, 'mux': None, 'group': ['group_by', 'mod:2', None], 'roll_eq': ['roll', 1100, 1100, None]}[ctx]
                items = [rng.randint(0, 2 ** 33) for _ in range(rng.choice([1100, 2300]))]
                if (k // 450) % 2:
                    yield {'kind': 'named', 'op': NAMED_SCALE[(k // 900) % len(NAMED_SCALE)], 'ctx': ctx, 'ctx_node': node, 'items': items}
                else:
                    acc, seedn, terms = COMBOS[(k // 900) % 5]
                    yield {'kind': 'generic', 'acc': acc, 'seed': seedn, 'term': terms[0], 'reduce': (k // 1800) % 2 == 0, 'ctx': ctx, 'ctx_node': node, 'items': items}
                continue
            if ctx == 'time_split':
                items = sorted(rng.randint(0, 30) for _ in range(ln))
            if k % 3 == 0:
                case = {'kind': 'named', 'op': NAMED[(k // 3) % len(NAMED)], 'ctx': ctx, 'ctx_node': node, 'items': items}
                turn = rng.randrange(4)     # (drawn: (k // 3) % 4 beats with the context turn k % 7)
                if case['op'][0] in ('duc', 'min', 'max', 'to_list', 'batch', 'count') and turn == 1 and ctx != 'time_split':
                    case['conv'] = 'np'          # numpy.int64 items: comparisons return numpy.bool_, not the object True
                elif case['op'][0] in ('variance', 'mean') and turn in (0, 3) and ctx in ('plain', 'mux', 'roll', 'roll_eq'):
                    case['conv'] = 'npvec'       # numpy float vectors: objects with IN-PLACE arithmetic (`m += d` changes the object m names)
                elif case['op'][0] in ('variance', 'min', 'max', 'count', 'to_list', 'duc') and turn == 2 and ctx != 'time_split':
                    case['conv'] = ('fraction', 'decimal')[rng.randrange(2)]
                yield case
            else:
                acc, seedn, terms = COMBOS[(k // 3) % len(COMBOS)]
                yield {'kind': 'generic', 'acc': acc, 'seed': seedn, 'term': terms[(k // 5) % len(terms)], 'reduce': rng.random() < 0.5,
                       'ctx': ctx, 'ctx_node': node, 'items': items, 'factory_form': ['function', 'partial', 'callable_object'][(k // 7) % 3]}

    # ------------------------------------------------------------------
    def _lifetimes(self, log, out):
        H, odd1 = tagged_lifetimes(log, 'H')
        T, odd2 = tagged_lifetimes(log, 'T')
        R, odd3 = tagged_lifetimes(log, 'R')
        if odd1 or odd2 or odd3:
            out.fail('events-outside-a-key-lifetime', odd=[repr(o) for o in (odd1 + odd2 + odd3)[:4]])
            return None
        bykey = {}
        for lt in T:
            bykey.setdefault(lt.key, []).append(lt)
        rkey = {}
        for lt in R:
            rkey.setdefault(lt.key, []).append(lt)
        seen = {}
        res = []
        for lt in H:
            j = seen.get(lt.key, 0)
            seen[lt.key] = j + 1
            t = bykey.get(lt.key, [])
            r = rkey.get(lt.key, [])
            if j >= len(t) or j >= len(r):
                out.fail('lifetime-has-no-counterpart-behind-the-operator', key=repr(lt.key), items=lt.items)
                return None
            res.append((lt, t[j], r[j]))
        return res

    def evaluate(self, case):
        out = Outcome()
        out.tags += [case['ctx'].split('>')[0], case['kind']]
        if len(case['items']) >= 1000:
            out.tags.append('scale')
        if case['ctx'] != 'plain' or case['kind'] == 'named':
            prelude_tags(case, out)
        if case['kind'] == 'named':
            return self._eval_named(case, out)
        return self._eval_generic(case, out)

    # -- generic scan ---------------------------------------------------
    def _run_generic(self, case, reduce, out):
        log = []
        probe = Probe(log, case['acc'], case['seed'], case['term'])
        probe.factory_form = case.get('factory_form', 'function')
        if probe.is_factory and probe.factory_form != 'function':
            out.tags.append('factory-that-is-not-a-function')
        mk = lambda: rs.ops.scan(probe.accumulator, probe.seed_arg(), reduce=self._flag(reduce, case, out), terminator=probe.terminator())   # noqa: E731
        if case['ctx'] == 'plain':
            for tag in ('H', 'T', 'R'):
                log.append((tag, 'C', 'plain', None))
            s = Snap()

            def on_next(i):
                log.append(('T', 'N', 'plain', copy.deepcopy(i)))
                log.append(('R', 'N', 'plain', i))

            def on_completed():
                log.append(('T', 'D', 'plain', None))
                log.append(('R', 'D', 'plain', None))
                s.on_completed()
            src = rx.from_(case['items']).pipe(
                rxops.do_action(on_next=lambda i: log.append(('H', 'N', 'plain', i)),
                                on_completed=lambda: log.append(('H', 'D', 'plain', None))), mk())
            try:
                src.subscribe(on_next=on_next, on_error=s.on_error, on_completed=on_completed)
            except Exception as e:      # noqa: BLE001
                s.err = e
        else:
            s = run_ctx(case['ctx_node'], mk, case['items'], log, prelude=case.get('prelude'))
        return log, probe, s

    def _eval_generic(self, case, out):
        reduce = case['reduce']
        accf, mutable = ACCS[case['acc']]
        termf = TERMS[case['term']]
        out.tags += ['reduce' if reduce else 'streaming', 'factory' if SEEDS[case['seed']][1] else 'value-seed']
        if termf:
            out.tags.append('terminator')
            if case['term'] == 'none_if_short':
                out.tags.append('terminator-whose-result-is-None-for-some-keys')
        if mutable:
            out.tags.append('mutable')
        log, probe, s = self._run_generic(case, reduce, out)
        if s.err is not None or not s.done:
            return out.fail('stream-error', error=repr(s.err), done=s.done)
        lts = self._lifetimes(log, out)
        if lts is None:
            return out
        # assign F events to the lifetime whose H event precedes them
        owner = {}
        cur = None
        hpos = {}
        for lt, _, _ in lts:
            hpos[lt.created_at] = lt
            for p in lt.item_at:
                hpos[p] = lt
            if lt.closed_at is not None:
                hpos[lt.closed_at] = lt
        calls = {id(lt): {'acc': [], 'seed': [], 'term': []} for lt, _, _ in lts}
        for n, e in enumerate(log):
            if e[0] == 'H' and n in hpos:
                cur = hpos[n]
            elif e[0] == 'F':
                if cur is None:
                    return out.fail('user-function-called-outside-any-key-lifetime', event=repr(e)[:200])
                calls[id(cur)][e[1]].append(e + (n,))
        with_items = 0
        foreign = {}        # id(obj) -> lifetime index, for mutable accumulator objects
        for li, (lt, t, r) in enumerate(lts):
            xs = lt.items
            c = calls[id(lt)]
            out.observed['lifetimes_checked'] += 1
            out.observed['accumulator_calls'] += len(c['acc'])
            out.observed['terminator_calls'] += len(c['term'])
            out.observed['factory_calls'] += len(c['seed'])
            if xs:
                with_items += 1
            else:
                out.tags.append('empty-lifetime')
            info = {'lifetime': li, 'key': repr(lt.key), 'items': xs[:30], 'variant': [case['acc'], case['seed'], case['term'], reduce]}
            # reference fold
            ref = probe.fresh_seed()
            running = []
            befores = []
            for x in xs:
                befores.append(copy.deepcopy(ref))
                ref = accf(ref, x)
                running.append(copy.deepcopy(ref))
            final = copy.deepcopy(ref)
            want = [] if reduce else list(running)
            if termf:
                final = termf(copy.deepcopy(ref))
                if not reduce:
                    want.append(copy.deepcopy(final))
            if reduce:
                want.append(copy.deepcopy(final))
            if norm(t.items) != norm(want):
                return out.fail('emissions-differ-from-the-fold', want=want[:20], got=t.items[:20], **info)
            # accumulator calls: one per item, each handed this lifetime's own previous result
            if len(c['acc']) != len(xs):
                return out.fail('accumulator-call-count', want=len(xs), got=len(c['acc']), **info)
            for i, e in enumerate(c['acc']):
                if norm(e[3]) != norm(befores[i]) or norm(e[4]) != norm(xs[i]):
                    return out.fail('accumulator-received-foreign-state', call=i, received=e[3], expected=befores[i], **info)
            if termf:
                if len(c['term']) != 1:
                    return out.fail('terminator-not-applied-exactly-once', calls=len(c['term']), **info)
                if norm(c['term'][0][3]) != norm(ref):
                    return out.fail('terminator-not-applied-to-the-final-accumulator', received=c['term'][0][3], expected=ref, **info)
                # at completion: after the last accumulator call of this lifetime
                pos_term = c['term'][0][-1]
                if lt.closed_at is None or pos_term < lt.closed_at:
                    return out.fail('terminator-applied-before-completion', **info)
            elif c['term']:
                return out.fail('terminator-called-but-none-given', **info)
            if probe.is_factory:
                need = 1 if (xs or reduce or termf) else 0
                if len(c['seed']) > 1 or len(c['seed']) < need:
                    return out.fail('seed-factory-call-count', want=need, got=len(c['seed']), **info)
            # identity isolation of mutable accumulators
            objs = [e[2] for e in c['acc']] + [e[5] for e in c['acc']] + [e[2] for e in c['term']] + [e[4] for e in c['term']]
            for o in objs:
                if is_mutable(o):
                    out.observed['identity_checks'] += 1
                    if not probe.is_factory and o is probe.user_seed:
                        return out.fail('accumulator-is-the-users-seed-object', **info)
                    prev = foreign.get(id(o))
                    if prev is not None and prev != li:
                        return out.fail('accumulator-object-shared-between-lifetimes', other_lifetime=prev, **info)
                    foreign[id(o)] = li
        if not probe.is_factory and norm(probe.user_seed) != norm(probe.seed_backup):
            return out.fail('users-seed-object-was-mutated', now=probe.user_seed, original=probe.seed_backup)
        if with_items >= 2 and (mutable or case['ctx'] in ('roll', 'roll_eq', 'split')):
            out.nontrivial = True
        # relation: last streaming value == reduce value (run the other variant on the same input)
        log2, probe2, s2 = self._run_generic(case, not reduce, out)
        if s2.err is not None or not s2.done:
            return out.fail('stream-error', error=repr(s2.err), variant='reduce=%s' % (not reduce))
        lts2 = self._lifetimes(log2, out)
        if lts2 is None:
            return out
        if len(lts2) != len(lts):
            return out.fail('lifetime-count-differs-between-reduce-and-streaming', a=len(lts), b=len(lts2))
        for (lt, t, _), (lt2, t2, _) in zip(lts, lts2):
            a, b = (t2.items, t.items) if reduce else (t.items, t2.items)     # a streaming, b reduce
            if a and norm(a[-1]) != norm(b[-1] if b else None):
                return out.fail('last-streaming-value-differs-from-reduce-value', streaming=a[-3:], reduce=b, items=lt.items[:30])
        return out

    # -- operators defined through scan -----------------------------------
    @staticmethod
    def _flag(value, case, out=None):
        """the reduce flag as the case wants it given: True / False, or an on / off value that is not one of these two objects - a
        numpy.bool_ read from a settings table, a 0 / 1 from a command line"""
        how = case.get('reduce_as')
        if not how or not isinstance(value, bool):
            return value
        if out is not None and 'reduce-flag-given-as-a-non-bool' not in out.tags:
            out.tags.append('reduce-flag-given-as-a-non-bool')
        if how == 'numpy':
            import numpy
            return numpy.bool_(value)
        return int(value)

    def _named_builder(self, node, case=None, out=None):
        case = case or {}
        if node[0] == 'dist.update':
            return lambda: rs.math.dist.update(bin_count=8, reduce=self._flag(node[1], case, out))
        if len(node) > 1 and isinstance(node[1], bool) and node[0] not in ('batch', 'take', 'lag'):
            return lambda: progs.build_node([node[0], self._flag(node[1], case, out)] + list(node[2:]))
        return lambda: progs.build_node(node)

    def _named_expected(self, node, xs):
        if node[0] == 'dist.update':
            h = distogram.Distogram(bin_count=8)
            outs = []
            for x in xs:
                h = distogram.update(h, x)
                outs.append(copy.deepcopy(h))
            if node[1]:
                return [copy.deepcopy(h)]
            return outs
        return [v for _, v in model.op_model(node)(xs)]

    @staticmethod
    def _dnorm(v):
        if isinstance(v, distogram.Distogram):
            return ('distogram', distogram.count(v), repr(distogram.bounds(v)) if distogram.count(v) else None, repr(v.bins))
        return norm(v)

    def _eval_named(self, case, out):
        node = case['op']
        if case.get('conv') == 'np':
            import numpy
            case = dict(case, items=[numpy.int64(x) for x in case['items']])
            out.tags.append('numpy-items')
        elif case.get('conv') == 'npvec':
            import numpy
            case = dict(case, items=[numpy.array([float(x), 2.0 * x + 1.0]) for x in case['items']])
            out.tags.append('numpy-vector-items')
        elif case.get('conv') in ('fraction', 'decimal'):
            # exact number types that mix with int but not (Decimal) or not exactly (Fraction) with float: a fold that
            # seeds or scales with a float literal fails or silently rounds
            import decimal
            import fractions
            mk = (lambda x: fractions.Fraction(x, 3)) if case['conv'] == 'fraction' else (lambda x: decimal.Decimal(x) / 4)
            case = dict(case, items=[mk(x) for x in case['items']])
            out.tags.append('exact-number-items')
        out.tags.append('op=' + node[0])
        if len(node) > 1 and node[1] is True:
            out.tags.append('reduce')
        ctx = case['ctx']
        log = []
        if case.get('conv'):
            # the operators own their state, not the items: what the source emitted is left as it was
            before = [norm(x) for x in case['items']]
            out2 = self._eval_named_inner(case, out, node, ctx, log)
            if not out2.failures and [norm(x) for x in case['items']] != before:
                return out2.fail('the-source-items-were-changed', op=node, before=before[:4], after=[norm(x) for x in case['items']][:4])
            return out2
        return self._eval_named_inner(case, out, node, ctx, log)

    def _eval_named_inner(self, case, out, node, ctx, log):
        if ctx == 'plain':
            op_ = self._named_builder(node, case, out)()
            s = progs.run_obs(lambda src: src.pipe(op_), case['items'], prelude=case.get('prelude'))
            if s.err is not None and node[0] == 'mean' and node[1] and not case['items']:
                out.discarded = 'mean(reduce) of an empty observable'
                return out
            if s.err is not None or not s.done:
                return out.fail('stream-error', error=repr(s.err), op=node)
            try:
                want = self._named_expected(node, case['items'])
            except model.Discard as d:
                out.discarded = str(d)
                return out
            out.observed['lifetimes_checked'] += 1
            if [self._dnorm(v) for v in s.out] != [self._dnorm(v) for v in want]:
                out.fail('differs-from-definition', op=node, items=case['items'], want=[repr(w)[:80] for w in want[:10]], got=[repr(g)[:80] for g in s.out[:10]])
            elif len(case['items']) <= 60 and not case.get('prelude'):
                # three streams with staggered lifetimes through the SAME operator object (progs.staggered_subscriptions), alone and
                # inside a store section: each owes the definition
                for how, wrap in (('plain', lambda src: src.pipe(op_)), ('multiplexed', lambda src: src.pipe(rs.state.with_memory_store([op_])))):
                    t = progs.staggered_subscriptions(wrap, case['items'], out, node[0] + ' (' + how + ')', lambda xs: [self._dnorm(v) for v in xs])
                    if t is None:
                        break
                    if t != [self._dnorm(v) for v in want]:
                        out.fail('differs-from-definition-with-staggered-streams-through-one-operator', op=node, how=how, items=case['items'])
                        break
            return out
        s = run_ctx(case['ctx_node'], self._named_builder(node, case, out), case['items'], log, prelude=case.get('prelude'))
        lts = self._lifetimes(log, out) if s.err is None else None
        # mean(reduce) of an empty key is outside the domain: decide from the observed lifetimes
        if node[0] == 'mean' and node[1]:
            H, _ = tagged_lifetimes(log, 'H')
            if any(not lt.items for lt in H):
                out.discarded = 'mean(reduce) of an empty key'
                return out
        if s.err is not None or not s.done:
            return out.fail('stream-error', error=repr(s.err), op=node)
        if lts is None:
            return out
        seen_objs = {}
        with_items = 0
        for li, (lt, t, r) in enumerate(lts):
            out.observed['lifetimes_checked'] += 1
            if lt.items:
                with_items += 1
            else:
                out.tags.append('empty-lifetime')
            want = self._named_expected(node, lt.items)
            if [self._dnorm(v) for v in t.items] != [self._dnorm(v) for v in want]:
                return out.fail('differs-from-definition', op=node, lifetime=li, key=repr(lt.key), items=lt.items[:30],
                                want=[repr(w)[:80] for w in want[:10]], got=[repr(g)[:80] for g in t.items[:10]])
            for o in r.items:
                if is_mutable(o) or isinstance(o, distogram.Distogram):
                    out.observed['identity_checks'] += 1
                    prev = seen_objs.get(id(o))
                    if prev is not None and prev[0] != li:
                        return out.fail('emitted-object-shared-between-lifetimes', op=node, lifetimes=[prev[0], li])
                    seen_objs[id(o)] = (li, o)
        if with_items >= 2:
            out.nontrivial = True
        return out

    def shrink(self, case):
        yield from shrink_prelude(case)
        items = case['items']
        for k in range(len(items)):
            yield dict(case, items=items[:k] + items[k + 1:])
        if case['ctx'] not in ('plain', 'mux'):
            yield dict(case, ctx='mux', ctx_node=None)


CHECK = C09()

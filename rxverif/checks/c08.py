"""C08 - tee_map equals running each branch independently and joining the results.

Events : (i) the tee's output with the source position of every item (Subject-driven source), per key
         lifetime when keyed (taps at the head and tail of the enclosing context); (ii) for each branch
         run SEPARATELY on the same items through the same mode (plain, or multiplexed standalone), the
         trace of (source event index, value), completion being the last event.
Oracle : 15-line reference join over the branch traces: iterate source events, within an event the
         branches in order and their outputs in order; merge emits each; zip stores latest[b] and emits
         tuple(latest) when every branch has produced since the last tuple; combine_latest stores and
         emits tuple(latest) with None for branches that have not produced in this lifetime.
"""
from ..common import Snap, Check, Outcome, bootstrap, norm, with_prelude, prelude_tags, shrink_prelude, PRELUDE_TAGS, PRELUDE_RULE
from .. import gen, progs, model
from ..muxmon import lifetimes

rs = bootstrap()

CTX = {
    'plain': None, 'mux': None,
    'group': lambda r: ['group_by', r.choice(['mod:%d', 'kt:%d']) % r.randint(2, 3), None],
    'roll': lambda r: ['roll', r.randint(1, 5), r.randint(1, 4), None],
    'roll_eq': lambda r: (lambda w: ['roll', w, w, None])(r.randint(1, 4)),
    'split': lambda r: ['split', 'div:%d' % r.randint(2, 5), None],
    'time_split': lambda r: ['time_split', {'active': r.choice([4, 7]), 'inactive': None, 'closing': 'modeq:5:0', 'include': True}, None],
}


def reference(branches, join, items, mode):
    """-> [(position, normalised value)] expected from the tee, or (None, reason)"""
    outs = []
    for b in branches:
        s = progs.run_driven(b, items, mode)
        if s.err is not None:
            return None, 'branch errored standalone: %r' % (s.err,)
        outs.append(list(zip(s.pos, s.out)))
    return model.tee_join(outs, len(items), join), None


class C08(Check):
    ID = 'C08'
    LEVEL = 'exploration'
    BUDGET = {'quick': 75, 'thorough': 240}
    RULE = ('case = (2..4 branch pipelines from the typed generator - streaming, filtering, reducing, multiplexed-only stateful operators, nested windows / groups and nested '
            'tee_map in keyed modes -, join in zip/merge/combine_latest, mode: plain observable, one multiplexed key, or keyed under group_by / roll (w != s, w == s) / split / '
            'time_split where the join slots are reused by successive key lifetimes; input 0..30 ints; every 60th case 140-300 interleaved groups with branches of different rates on 900-1500 items). Branches are re-run separately in the same mode with a Subject-driven '
            'source to get their (event index, value) traces. non-trivial = the branches emit different numbers of items; distinct = hash of the case')
    RULE += PRELUDE_RULE
    ASSUMPTIONS = ['branches never contain a streaming scan that mutates and re-emits its accumulator object (the join legitimately holds that object, later mutations show through; snapshots cannot express it)',
                   'each mode is compared with branches run in the SAME mode, so early completion after take/first on plain observables is part of the reference',
                   'branch programs whose standalone run errors (mean(reduce) on an empty key ...) are discarded']
    ANCHORS = ['rxsci/operators/tee_map.py', 'rxsci/mux/muxconnectable.py']
    REQUIRED_TAGS = ['two-level-context:key-indices-created-out-of-order-with-gaps', 'plain', 'mux', 'group', 'roll', 'roll_eq', 'split', 'zip', 'merge', 'combine_latest', 'branches=2', 'branches=3', 'branches=4', 'nested-tee', 'over-256-keys', 'after-aborted-subscriptions', 'prelude:dispose', 'prelude:peek', 'a-branch-with-failing-records', 'rx-native-branch-with-inner-observables', 'branches>=9', 'a-key-slot-reused-by-hundreds-of-windows-while-a-value-waits-in-the-join', 'first-branch-ends-with-a-native-rx-operator']
    REQUIRED_OBSERVED = ['tuples_compared', 'branch_traces_recorded', 'lifetimes_checked', 'cold_source_runs_compared']

    def generate(self, rng, tier, shard, nshards):
        return with_prelude(self._generate(rng, tier, shard, nshards), rng, size=lambda c: len(c['items']))

    def _generate(self, rng, tier, shard, nshards):
        n = 3200 if tier == 'quick' else 10 ** 7
        names = list(CTX)
        for k in range(n):
            if k % 400 == 10:
                # scale: 300 interleaved groups (join slots of key indices > 255 / more than 128 keys between two items of a key),
                # branches that emit at different rates so values wait in the join slots
                nb = rng.choice([2, 3])
                branches = [[['filter', 'modne:%d:0' % rng.randint(2, 3)]], [['map', 'add:1']], [['filter', 'gt:%d' % rng.randint(100, 400)]]][:nb]
                rng.shuffle(branches)
                if (k // 400) % 2:
                    # many branches (per-branch flags packed in a byte / a word)
                    branches = branches + [[['map', 'add:%d' % j]] for j in range(rng.choice([6, 7, 14]))]
                yield {'branches': branches, 'join': ['zip', 'combine_latest', 'merge'][(k // 400) % 3], 'ctx': 'group',
                       'ctx_node': ['group_by', rng.choice(['mod:300', 'mod:140', 'kt:300']), None],
                       'items': [rng.randint(0, 2000) for _ in range(rng.choice([900, 1500]))]}
                continue
            if k % 400 == 210:
                # one key slot re-used by hundreds of successive windows / segments while a value waits in a join slot: branch A
                # emits in window a, branch B - alone - in window a + d, for d around the powers of two (generation counters,
                # stamps and bit sets of 7, 8, 9, 10 bits)
                gaps = [255, 256, 127, 128, 129, 257, 254, 511, 512, 513, 510, 1023, 1024, 1025]
                for e in range(2):
                    d = gaps[(2 * (k // 400) + e) % len(gaps)]
                    for join in ('zip', 'combine_latest'):
                        wl = 1 + ((k // 400) + e) % 2
                        a = rng.randint(2, 9)
                        first, second = a * wl, (a + d) * wl + (wl - 1)
                        branches = [[['filter', 'modeq:1000000:%d' % first]], [['filter', 'modeq:1000000:%d' % second]]]
                        if (k // 400) % 3 == 2:
                            branches.append([['filter', 'modeq:1000000:%d' % second]])
                        yield {'branches': branches, 'join': join, 'ctx': ['roll_eq', 'split'][(k // 1600) % 2],
                               'ctx_node': [['roll', wl, wl, None], ['split', 'div:%d' % wl, None]][(k // 1600) % 2],
                               'items': list(range(second + 2 * wl + 1)), 'slot_reuse_gap': d}
                continue
            if k % 50 == 41:
                # a TWO-level context: group_by over roll with three or more windows open at a time over the tee.  The window keys of
                # the second group are created while the first group has opened only one of its slots, so key indices reach the tee
                # out of order and with gaps of two or more; branches of different rates keep values waiting in the join meanwhile
                w, st = rng.choice([(3, 1), (4, 1), (5, 1), (5, 2), (6, 2), (7, 2)])
                rate = rng.choice([[['filter', 'modne:2:0']], [['filter', 'modne:3:0']], [['filter', 'modne:2:1']]])
                other = rng.choice([[['identity']], [['scan', 'acc_add', 'zero', False, None]], [['map', 'add:1']], [['count', False]]])
                tail_ = rng.choice([[], [['scan', 'acc_add', 'zero', False, None]]])
                branches = [rate + tail_, other] if rng.random() < 0.5 else [other, rate + tail_]
                if rng.random() < 0.3:
                    branches.append([['map', 'mul:2']])
                ng = rng.choice([2, 2, 3])
                yield {'branches': branches, 'join': ['zip', 'combine_latest', 'zip', 'merge'][(k // 50) % 4], 'ctx': 'roll',
                       'ctx_node': ['roll', w, st, None], 'outer_node': ['group_by', 'mod:%d' % ng, None],
                       'items': [rng.randint(0, 30) for _ in range(rng.choice([8, 14, 25]))]}
                continue
            ctx = names[k % len(names)]
            plain = ctx == 'plain'
            opts = gen.GenOpts(dual_only=plain, max_depth=1 if plain else 2, allow_empty_sensitive=True, allow_progress=False,
                               ctx_weight=2, tee_weight=2, no_streaming_mutation=True)
            nb = rng.choice([2, 2, 3, 4]) if k % 50 != 25 else rng.choice([9, 10, 17])
            branches = []
            for _ in range(nb):
                st = gen.State(in_tee=True)
                b, _ = gen.gen_pipeline(rng, 'i', rng.randint(1, 3), opts, st, opts.max_depth)
                branches.append(b)
            items = gen.gen_items(rng, hi=rng.choice([6, 12, 30]), sorted_=(ctx == 'time_split'))
            if plain and rng.random() < 0.34:       # (drawn: (k // len(names)) % 3 is what selects the join)
                branches[rng.randrange(nb)] = [['rxflat']] + ([['map', 'add:1']] if rng.random() < 0.5 else [])
            native_tail = None
            if not plain and k % 5 != 2 and rng.random() < 0.15:
                # an RxPY-native pass-through as the last operator of a branch on a multiplexed source (progs 'rxtap'): the branch's
                # output is then a plain rx Observable carrying the mux events
                native_tail = rng.choice([0, 0, rng.randrange(nb)])
                branches[native_tail] = branches[native_tail] + [['rxtap']]
            dirty = None
            if k % 5 == 2 and not plain and items:
                # one branch starts with a map whose function raises on some records; the mux errors leave the tee and
                # are dropped right behind it.  The other branches' values, waiting in the join, are not to be touched.
                # (only a branch without windows / groups of its own: what a mux error does while it travels through
                # a context operator is not stated by any property)
                flat = [j for j, b in enumerate(branches) if not any(n[0] in progs.CONTEXTS for _, n in progs.walk(b))]
                if flat:
                    dirty = {'branch': rng.choice(flat), 'vals': sorted(set(rng.sample(items, min(len(items), rng.randint(1, 3)))))}
            yield {'branches': branches, 'join': ['zip', 'merge', 'combine_latest'][(k // len(names)) % 3], 'ctx': ctx,
                   'ctx_node': CTX[ctx](rng) if CTX[ctx] else None, 'items': items, **({'dirty': dirty} if dirty else {})}

    def evaluate(self, case):
        out = Outcome()
        branches, join, ctx, items = case['branches'], case['join'], case['ctx'], case['items']
        after = []
        if case.get('dirty'):
            d = case['dirty']
            out.tags.append('a-branch-with-failing-records')
            branches = [([['map', 'raise_on:%s:id' % ','.join(str(v) for v in d['vals'])]] + b if j == d['branch'] else b) + [['ignore']]
                        for j, b in enumerate(branches)]
            # (the reference runs each branch with rs.error.ignore() at its end; the real run has it after the join)
            real = [b[:-1] for b in branches]
            after = [['ignore']]
        else:
            real = branches
        tee = ['tee_map', join, real]
        out.tags += [ctx, join, 'branches=%d' % len(branches)]
        if len(branches) >= 9:
            out.tags.append('branches>=9')
        if case.get('slot_reuse_gap'):
            out.tags.append('a-key-slot-reused-by-hundreds-of-windows-while-a-value-waits-in-the-join')
        if branches and branches[0] and branches[0][-1] == ['rxtap']:
            out.tags.append('first-branch-ends-with-a-native-rx-operator')
        if any(n[0] == 'rxflat' for b in branches for _, n in progs.walk(b)):
            out.tags.append('rx-native-branch-with-inner-observables')
        if case.get('prelude') and progs.usable_prelude([tee], case['prelude']) and ctx != 'plain':
            prelude_tags(dict(case, prelude=progs.usable_prelude([tee], case['prelude'])), out)
        if any(n[0] == 'tee_map' for b in branches for _, n in progs.walk(b)):
            out.tags.append('nested-tee')
        if ctx in ('plain', 'mux'):
            want, why = reference(branches, join, items, ctx)
            out.observed['branch_traces_recorded'] += len(branches)
            if want is None:
                out.discarded = 'branch errors standalone'
                return out
            got = progs.run_driven([tee] + after, items, ctx, prelude=case.get('prelude'))
            if got.err is not None or not got.done:
                return out.fail('tee-errored-where-its-branches-do-not', error=repr(got.err), done=got.done, ctx=ctx)
            out.observed['lifetimes_checked'] += 1
            if self._cmp(out, list(zip(got.pos, got.out)), want, positions=True, info={'items': items}).failures:
                return out
            if ctx == 'plain' and join in ('zip', 'merge') and not case.get('prelude'):
                # the same tee on a COLD source (rx.from_: the current-thread trampoline defers what RxPY-native operators with
                # inner observables emit until after the source completed): merge delivers the same multiset; zip the same tuples as long
                # as no branch holds such an operator
                import rx
                from ..common import subscribe
                def sync_source(observer, scheduler=None):
                    # a cold source that emits from inside its subscribe function: every branch must be subscribed before
                    # the source is connected
                    for x in items:
                        observer.on_next(x)
                    observer.on_completed()
                native = any(n[0] == 'rxflat' for b in branches for _, n in progs.walk(b))
                for kind, source in (('rx.from_', rx.from_(items)), ('rx.create emitting while it is subscribed', rx.create(sync_source))):
                    if native and join == 'zip':
                        # (a zip tuple holds the LATEST value of every branch since the last tuple: when the trampoline defers what a
                        # branch with inner observables emits, other values are the latest - a different, equally correct, output)
                        continue
                    cold = subscribe(source.pipe(*progs.build([tee] + after)), Snap())
                    out.observed['cold_source_runs_compared'] += 1
                    a, b = [norm(v) for v in cold.out], [norm(v) for v in got.out]
                    if join == 'merge':
                        a, b = sorted(a, key=repr), sorted(b, key=repr)
                    if cold.err is not None or not cold.done or a != b:
                        return out.fail('tee-on-a-cold-source-differs-from-the-pushed-run', source=kind, join=join, error=repr(cold.err), done=cold.done,
                                        cold=cold.out[:12], pushed=got.out[:12], items=items)
            return out
        # keyed: lifetimes of the enclosing context (behind the tee a stateful pass-through, which fails on a joined event that lacks
        # the section's store)
        node = list(case['ctx_node'])
        node[-1] = [tee] + after + [['scan', 'acc_keep', 'none', False, None]]
        head, tail = [], []
        if case.get('outer_node'):
            outer = list(case['outer_node'])
            outer[-1] = [node]
            out.tags.append('two-level-context:key-indices-created-out-of-order-with-gaps')
            snap = progs.run_mux([outer], items, taps={(0, 0): (head, tail)}, prelude=case.get('prelude'))
        else:
            snap = progs.run_mux([node], items, taps={(0,): (head, tail)}, prelude=case.get('prelude'))
        hl, odd1 = lifetimes(head)
        tl, odd2 = lifetimes(tail)
        if len(hl) > 256:
            out.tags.append('over-256-keys')
        refs = []
        for lt in hl:
            want, why = reference(branches, join, lt.items, 'mux')
            out.observed['branch_traces_recorded'] += len(branches)
            if want is None:
                out.discarded = 'branch errors standalone'
                return out
            refs.append(want)
        if snap.err is not None or not snap.done:
            return out.fail('tee-errored-where-its-branches-do-not', error=repr(snap.err), done=snap.done, ctx=ctx)
        if odd1 or odd2:
            return out.fail('events-outside-a-key-lifetime', odd=[repr(o) for o in (odd1 + odd2)[:4]])
        bykey = {}
        for lt in tl:
            bykey.setdefault(lt.key, []).append(lt)
        seen = {}
        for lt, want in zip(hl, refs):
            j = seen.get(lt.key, 0)
            seen[lt.key] = j + 1
            ts = bykey.get(lt.key, [])
            if j >= len(ts):
                return out.fail('lifetime-without-output-counterpart', key=repr(lt.key))
            out.observed['lifetimes_checked'] += 1
            if self._cmp(out, [(None, v) for v in ts[j].items], want, positions=False,
                         info={'lifetime_items': lt.items, 'key': repr(lt.key), 'lifetime_index_on_key': j}).failures:
                return out
        return out

    def _cmp(self, out, got, want, positions, info):
        g = [(p if positions else None, norm(v)) for p, v in got]
        w = [(p if positions else None, norm(v)) for p, v in want]
        out.observed['tuples_compared'] += len(w)
        if g != w:
            k = next((i for i, (a, b) in enumerate(zip(g, w)) if a != b), min(len(g), len(w)))
            stale = False
            if k < len(g) and k < len(w) and isinstance(g[k][1], tuple) and isinstance(w[k][1], tuple):
                stale = any(b is None and a is not None for a, b in zip(g[k][1][1:], w[k][1][1:]))
            out.fail('tee-output-differs-from-the-join-of-its-branches', mech='tee-map-stale-join-slot' if stale else None,
                     first_difference=k, got=got[max(0, k - 1):k + 3], want=want[max(0, k - 1):k + 3],
                     n_got=len(g), n_want=len(w), **info)
            return out
        # non-trivial: branches with different output counts -> visible in merge length / None components
        if want and (len(want) >= 2):
            out.nontrivial = True
        return out

    def shrink(self, case):
        yield from shrink_prelude(case)
        from .c11 import shrink_prog
        items = case['items']
        for k in range(len(items)):
            yield dict(case, items=items[:k] + items[k + 1:])
        br = case['branches']
        if len(br) > 2:
            for j in range(len(br)):
                yield dict(case, branches=br[:j] + br[j + 1:])
        for j, b in enumerate(br):
            for sub in shrink_prog({'p': b}, 'p'):
                if sub['p'] and progs.well_typed(sub['p']) is not None:
                    yield dict(case, branches=br[:j] + [sub['p']] + br[j + 1:])
        if case['ctx'] not in ('plain', 'mux'):
            yield dict(case, ctx='mux', ctx_node=None)


CHECK = C08()

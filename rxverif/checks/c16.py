"""C16 - compression round-trips under re-chunking and flags truncated streams.

Events : chunks emitted by compress(); items / completion / error of decompress().
Oracle : concat(decompress(rechunk(concat(compress(xs))))) == concat(xs) and completion;
         reference decoders (gzip module, zstandard stream reader) accept the compressed
         bytes as a standalone file with the same content; every proper prefix of the
         compressed bytes makes decompress signal on_error and never on_completed.
"""
import gzip
import io
import random

import rx

from .. import chunking
from ..common import Check, Outcome, Snap, subscribe, subscribe2, bootstrap

rs = bootstrap()
import zstandard                                            # noqa: E402

# compressed sizes a streaming wrapper may re-block on: zstandard's recommended input / output sizes and their doubles, powers of two
# (taken in turn, so that every quick run has them all)
TARGETS = {'zstd': [131075, 131591, 2 * 131075, 131072, 65536, 2 * 131591, 32768, 262144],
           'gzip': [65536, 32768, 131072, 16384, 8192, 262144, 4096, 2 * 65536 + 65536]}

CODECS = {
    'gzip': (rs.compression.z.compress, rs.compression.z.decompress),
    'zstd': (rs.compression.zstd.compress, rs.compression.zstd.decompress),
}


def build_chunks(spec):
    r = random.Random(spec['dseed'])
    out = []
    for j, n in enumerate(spec['sizes']):
        k = spec['kind']
        if k == 'seq':
            k = spec['seq'][j]
        if k == 'mixed':
            k = r.choice(['rand', 'zeros', 'text'])
        if k == 'rand':
            out.append(r.randbytes(n))
        elif k == 'zeros':
            out.append(bytes(n))
        else:
            words = [b'alpha', b'beta', b'gamma', b' ', b'\n', b'0123456789']
            b = bytearray()
            while len(b) < n:
                b += r.choice(words)
            out.append(bytes(b[:n]))
    return out


def reference_decode(codec, comp):
    if codec == 'gzip':
        return gzip.decompress(comp)
    return zstandard.ZstdDecompressor().stream_reader(io.BytesIO(comp)).read()


class C16(Check):
    ID = 'C16'
    LEVEL = 'fault_enumeration'
    BUDGET = {'quick': 75, 'thorough': 240}
    RULE = ('case = (codec, chunk list given as (kind, sizes, data seed), list of re-chunkings of the compressed bytes, '
            'set of truncation points); fault model = the compressed stream ends at byte t, for EVERY t < len when the '
            'compressed stream is <= 512 B (quick) / 2 KiB (thorough), 40 sampled t otherwise, each fed whole and cut in two; '
            're-chunkings: the compressor\'s own chunks, one blob, fixed 1/7/4096-byte chunks, random cuts, empty chunks inserted '
            'before/between/after; sizes 0 .. 3 internal buffers (128 KiB) quick, 1 MiB thorough, plus 2-6 MiB of highly compressible data (a small compressed chunk expanding to several MiB). '
            'non-trivial = some re-chunking with >= 2 non-empty chunks; distinct = hash of the case')
    ASSUMPTIONS = ['zlib / zstandard C libraries are trusted as codecs; the property is about rxsci\'s streaming wrappers',
                   'reference decoders: gzip.decompress and zstandard.ZstdDecompressor.stream_reader']
    ANCHORS = ['rxsci/compression/z.py', 'rxsci/compression/zstd.py']
    REQUIRED_TAGS = ['gzip', 'zstd', 'empty-list', 'empty-chunk-in-input', 'over-one-buffer', 'rand', 'zeros', 'multi-MiB-compressible', 'over-4MiB', 'compressed-size-is-a-block-size', 'mixed-compressibility', 'thousands-of-small-chunks', 'chunks-as-bytearray', 'chunks-as-memoryview', 'chunks-as-numpy-uint8', 'chunks-that-are-buffers-of-wider-items', 'wide-buffer-of-over-2**20-items']
    REQUIRED_OBSERVED = ['triples_of_staggered_subscriptions', 'truncations_checked', 'rechunkings_checked', 'reference_decodes', 'compressed_streams_of_exactly_a_block_size']

    _ops = {}

    def generate(self, rng, tier, shard, nshards):
        n = 200 if tier == 'quick' else 10 ** 7
        if tier == 'thorough' and shard == 0:
            # one stream of 2**32 bytes and one just beyond (length fields of 32 bits: the gzip trailer holds the size modulo
            # 2**32): about a minute each, thorough tier only, streamed through counting observers
            yield {'huge': (1 << 32), 'codec': 'gzip', 'watchdog_s': 400}
            yield {'huge': (1 << 32) + (1 << 20) + 5, 'codec': 'zstd', 'watchdog_s': 400}
        big = 3 * 131072 + 17 if tier == 'quick' else 1 << 20
        for k in range(n):
            codec = ('gzip', 'zstd')[k % 2]
            shape = k % 9
            if shape == 0:
                sizes = []
            elif shape == 1:
                sizes = [0] * rng.randint(1, 3)
            elif shape == 2:
                sizes = [rng.randint(1, 40)]
            elif shape == 3:
                sizes = [rng.choice([0, 1, 5, 100]) for _ in range(rng.randint(2, 6))]
            elif shape == 4:
                sizes = [rng.randint(100, 3000) for _ in range(rng.randint(1, 5))]
            elif shape == 5:
                sizes = [rng.choice([131071, 131072, 131073, 65536])] + [rng.randint(0, 10)]
            elif shape == 6:
                sizes = [rng.randint(1, big // 3) for _ in range(3)]
            elif shape == 7:
                sizes = [0, rng.randint(1, 2000), 0, 0, rng.randint(1, 2000), 0]
            else:
                sizes = [rng.randint(0, 64) for _ in range(rng.randint(1, 12))]
            kind = rng.choice(['rand', 'zeros', 'text', 'mixed'])
            if k < 8:
                kind = ('rand', 'zeros')[(k // 2) % 2]
            if k % 60 == 6:
                # well beyond 4 MiB of input, incompressible and compressible, a few large chunks
                sizes = [rng.choice([1 << 21, (1 << 21) + 5, 3 << 20]) for _ in range(rng.randint(2, 4))]
                if k == 6:
                    sizes = [3 << 20, (3 << 20) + 5, 3 << 20]       # (more than 8 * 2**20 bytes for sure: the wide-item buffer of over 2**20 items)
                kind = ('rand', 'text', 'zeros')[(k // 60) % 3]
                codec = ('gzip', 'zstd')[(k // 180) % 2]
            elif k % 24 == 11:
                # several MiB of highly compressible data: one compressed chunk expands to far more than any
                # internal buffer (decompressors that bound their output per call must still drain everything)
                sizes = [rng.choice([1 << 20, (1 << 20) + 13, 3 << 19]) for _ in range(rng.randint(2, 4))]
                kind = ('zeros', 'text')[(k // 24) % 2]
                codec = ('gzip', 'zstd')[(k // 48) % 2]
            if k % 20 == 12:
                # MANY small chunks, a round number of them (one chunk per record of a data set of 1000 / 3000 / 4096 / 10 000
                # records): counters of items, periodic flush points
                counts = [1000, 3000, 4096, 10000, 2000, 5000, 8192, 6000] if tier == 'quick' else [1000, 3000, 4096, 10000, 6000, 30000, 60000, 65536, 100000, 2000, 5000, 8192, 20000, 50000]
                cnt = counts[(k // 20) % len(counts)]
                yield {'codec': ('gzip', 'zstd')[(k // 20 // len(counts)) % 2] if tier != 'quick' else ('gzip', 'zstd')[(k // 40) % 2],
                       'data': {'kind': 'text', 'sizes': [rng.choice([0, 1, 7, 20]) if j % 50 else 20 for j in range(cnt)], 'dseed': rng.randrange(1 << 30)},
                       'rechunks': [{'mode': 'natural'}, {'mode': 'blob'}, {'mode': 'fixed', 'size': 4096}], 'truncs': [0, 1, 5], 'tseed': 0, 'tier': tier, 'many': cnt}
                continue
            if k % 20 == 7:
                # mixed compressibility: highly repetitive blocks (a few output bytes per 128 KiB) in front of, between and behind
                # ordinary / incompressible data - small and large OUTPUT items alternate
                codec = ('zstd', 'gzip')[(k // 20) % 2]
                shape = [['zeros', 'rand'], ['text', 'zeros', 'text'], ['zeros', 'zeros', 'rand', 'zeros'], ['rand', 'zeros', 'rand']][(k // 40) % 4]
                yield {'codec': codec, 'data': {'kind': 'seq', 'seq': shape, 'sizes': [rng.choice([131072, 262144, 300000]) if x == 'zeros' else rng.choice([5000, 70000])
                                                                                   for x in shape], 'dseed': rng.randrange(1 << 30)},
                       'rechunks': [{'mode': 'natural'}, {'mode': 'blob'}, {'mode': 'fixed', 'size': 4096}, {'mode': 'random', 'cseed': rng.randrange(1 << 30)}],
                       'truncs': 'all', 'tseed': rng.randrange(1 << 30), 'tier': tier}
                continue
            if k % 20 == 2:
                # the COMPRESSED stream is exactly T bytes long, T a buffer size a streaming wrapper may re-block on
                # (zstd's recommended input / output sizes, powers of two) or a multiple: the last byte of the frame is
                # then the last byte of a block
                codec = ('gzip', 'zstd')[(k // 20) % 2]
                tl = TARGETS[codec]
                T = tl[(k // 40) % len(tl)]
                dseed = rng.randrange(1 << 30)
                n = self._payload_for_compressed_size(codec, T, dseed)
                if n is not None:
                    sizes, kind = [n], 'rand'
                    yield {'codec': codec, 'data': {'kind': kind, 'sizes': sizes, 'dseed': dseed}, 'target': T,
                           'rechunks': [{'mode': 'natural'}, {'mode': 'blob'}, {'mode': 'fixed', 'size': 65536}, {'mode': 'fixed', 'size': 1000},
                                        {'mode': 'random', 'cseed': rng.randrange(1 << 30), 'empties': True}, {'mode': 'trailing-empty'}],
                           'truncs': 'all', 'tseed': rng.randrange(1 << 30), 'tier': tier}
                    continue
            rech = [{'mode': 'natural'}, {'mode': 'blob'}, {'mode': 'blob', 'empties': True},
                    {'mode': 'fixed', 'size': 1 if sum(sizes) < 5000 else 997},
                    {'mode': 'fixed', 'size': 7 if sum(sizes) < 20000 else 4096, 'empties': True},
                    {'mode': 'random', 'cseed': rng.randrange(1 << 30)},
                    {'mode': 'random', 'cseed': rng.randrange(1 << 30), 'empties': True},
                    {'mode': 'trailing-empty'}]
            yield {'codec': codec, 'data': {'kind': kind, 'sizes': sizes, 'dseed': rng.randrange(1 << 30)},
                   'rechunks': rech, 'truncs': 'all', 'tseed': rng.randrange(1 << 30), 'tier': tier}

    def _payload_for_compressed_size(self, codec, T, dseed):
        """-> n such that rxsci's own compress() turns the n incompressible bytes of this seed into exactly T bytes"""
        n = max(1, T - 30)
        for _ in range(8):
            data = random.Random(dseed).randbytes(n)
            c = subscribe(rx.from_([data]).pipe(CODECS[codec][0]()), Snap())
            if c.err is not None or not c.done:
                return None
            got = sum(len(x) for x in c.out)
            if got == T:
                return n
            n += T - got
            if n < 1:
                return None
        return None

    def _rechunk(self, comp, natural, r):
        mode = r['mode']
        if mode == 'natural':
            ch = list(natural)
        elif mode == 'blob':
            ch = [comp]
        elif mode == 'fixed':
            s = r['size']
            ch = [comp[i:i + s] for i in range(0, len(comp), s)]
        elif mode == 'trailing-empty':
            ch = [comp, b'']
        else:
            rr = random.Random(r['cseed'])
            ch = chunking.cut(comp, chunking.random_cuts(rr, len(comp), maxcuts=rr.choice([1, 2, 5, 30])))
        if r.get('empties'):
            ch = chunking.insert_empties_everywhere(ch, b'')
        return ch

    def _eval_huge(self, case, out):
        import zlib
        codec, total = case['codec'], case['huge']
        out.tags += [codec, 'stream-of-2**32-bytes-or-more']
        out.nontrivial = True
        block = bytes(1 << 20)
        nfull, tail = divmod(total, len(block))

        def chunks():
            for _ in range(nfull):
                yield block
            if tail:
                yield block[:tail]
        comp = []
        c = Snap()
        c.on_next = comp.append
        subscribe(rx.from_(chunks()).pipe(CODECS[codec][0]()), c)
        if c.err is not None or not c.done:
            return out.fail('compress-failed', error=repr(c.err), done=c.done, input_bytes=total)
        out.observed['compressed_bytes'] += sum(len(x) for x in comp)
        # standalone validity, streamed
        if codec == 'gzip':
            d = zlib.decompressobj(wbits=31)
            n = 0
            for x in comp:
                data = d.decompress(x, 1 << 24)
                n += len(data)
                while d.unconsumed_tail:
                    data = d.decompress(d.unconsumed_tail, 1 << 24)
                    n += len(data)
            n += len(d.flush())
            if not d.eof or d.unused_data or n != total:
                return out.fail('not-a-standalone-stream', eof=d.eof, decoded=n, want=total)
        else:
            rd = zstandard.ZstdDecompressor().stream_reader(io.BytesIO(b''.join(comp)))
            n = 0
            while True:
                data = rd.read(1 << 24)
                if not data:
                    break
                n += len(data)
            if n != total:
                return out.fail('reference-decoder-content-differs', got_len=n, want_len=total)
        out.observed['reference_decodes'] += 1
        count = [0, True]
        dsn = Snap()

        def on_next(x):
            count[0] += len(x)
            if x.count(0) != len(x):
                count[1] = False
        dsn.on_next = on_next
        subscribe(rx.from_(comp).pipe(CODECS[codec][1]()), dsn)
        out.observed['rechunkings_checked'] += 1
        if dsn.err is not None or not dsn.done or count[0] != total or not count[1]:
            return out.fail('decompress-content-differs', error=repr(dsn.err), done=dsn.done, got_len=count[0], want_len=total, all_zero=count[1])
        return out

    def evaluate(self, case):
        out = Outcome()
        if case.get('huge'):
            return self._eval_huge(case, out)
        codec = case['codec']
        # operator objects are built once per codec and re-subscribed for every stream / truncation: the
        # (de)compressor object must belong to the subscription, not to the operator
        if codec not in self._ops:
            self._ops[codec] = (CODECS[codec][0](), CODECS[codec][1]())
        comp_built, decomp_built = self._ops[codec]
        comp_op, decomp_op = (lambda: comp_built), (lambda: decomp_built)
        chunks = build_chunks(case['data'])
        data = b''.join(chunks)
        out.tags += [codec, case['data']['kind']]
        if case['data']['kind'] == 'seq':
            out.tags.append('mixed-compressibility')
        if not chunks:
            out.tags.append('empty-list')
        if any(len(c) == 0 for c in chunks):
            out.tags.append('empty-chunk-in-input')
        if len(data) > 131072:
            out.tags.append('over-one-buffer')
        if case.get('target'):
            out.tags.append('compressed-size-is-a-block-size')
        if case.get('many'):
            out.tags.append('thousands-of-small-chunks')
        if len(data) > (4 << 20):
            out.tags.append('over-4MiB')
        if len(data) > (2 << 20) and case['data']['kind'] in ('zeros', 'text'):
            out.tags.append('multi-MiB-compressible')

        small = len(data) < (1 << 16)
        c = subscribe2(rx.from_(chunks).pipe(comp_op()), out, 'compress', same=lambda x, y: b''.join(x) == b''.join(y), abuse=small)
        if c.err is not None or not c.done:
            return out.fail('compress-failed', error=repr(c.err), done=c.done)
        if not all(isinstance(x, bytes) for x in c.out):
            return out.fail('compress-emitted-non-bytes', types=[type(x).__name__ for x in c.out])
        comp = b''.join(c.out)
        out.observed['compressed_bytes'] += len(comp)
        if case.get('target') and len(comp) == case['target']:
            out.observed['compressed_streams_of_exactly_a_block_size'] += 1
        # standalone validity
        try:
            ref = reference_decode(codec, comp)
        except Exception as e:      # noqa: BLE001
            return out.fail('not-a-standalone-stream', error=repr(e), compressed_len=len(comp))
        out.observed['reference_decodes'] += 1
        if ref != data:
            return out.fail('reference-decoder-content-differs', got_len=len(ref), want_len=len(data))

        # re-chunkings
        for r in case['rechunks']:
            ch = self._rechunk(comp, c.out, r)
            if sum(1 for x in ch if x) >= 2:
                out.nontrivial = True
            if len(data) < (1 << 20) or r is case['rechunks'][0]:
                d = subscribe2(rx.from_(ch).pipe(decomp_op()), out, 'decompress', same=lambda x, y: b''.join(x) == b''.join(y), abuse=small)
            else:
                d = subscribe(rx.from_(ch).pipe(decomp_op()), Snap())
            out.observed['rechunkings_checked'] += 1
            out.observed['chunks_fed'] += len(ch)
            mech = None
            if d.err is not None:
                # classify: only empty chunks remain after the chunk that ended the frame
                nz = [i for i, x in enumerate(ch) if x]
                if codec == 'zstd' and ch and (not nz or nz[-1] < len(ch) - 1):
                    mech = 'zstd-empty-chunk-after-end-of-frame'
                out.fail('decompress-error-on-complete-stream', mech=mech, error=repr(d.err), rechunk=r,
                         chunk_sizes=[len(x) for x in ch][:50])
                continue
            if not d.done:
                out.fail('decompress-no-completion', rechunk=r)
                continue
            got = b''.join(d.out)
            if got != data:
                out.fail('decompress-content-differs', rechunk=r, got_len=len(got), want_len=len(data),
                         first_diff=next((i for i, (a, b) in enumerate(zip(got, data)) if a != b), min(len(got), len(data))))
        # the same chunks as bytearray objects / as memoryview slices of one buffer, each consumed twice as the same objects: same
        # content in both directions, and the chunks are left as they were handed over
        ct = (chunking.BYTES_LIKE + ('numpy-uint8',))[(len(chunks) + len(data) + len(comp)) % 4]
        if ct != 'bytes' and len(data) <= (1 << 20) and not out.failures:
            out.tags.append('chunks-as-' + ct)
            alt = chunking.bytes_like(chunks, ct)
            before = chunking.frozen(alt)
            for turn in (1, 2):
                g = subscribe(rx.from_(alt).pipe(comp_op()), Snap())
                out.observed['bytes_like_runs'] += 1
                if chunking.frozen(alt) != before:
                    return out.fail('compress-changed-the-chunks-it-was-given', chunk_type=ct)
                try:
                    back = reference_decode(codec, b''.join(bytes(x) for x in g.out)) if g.err is None and g.done else None
                except Exception as e:      # noqa: BLE001
                    back = repr(e)
                if back != data:
                    return out.fail('compress-mismatch-on-%s-chunks' % ct, subscription=turn, error=repr(g.err), got=back if isinstance(back, str) else None,
                                    want_len=len(data))
            alt = chunking.bytes_like(self._rechunk(comp, c.out, case['rechunks'][0]) if case['rechunks'] else list(c.out), ct)
            before = chunking.frozen(alt)
            for turn in (1, 2):
                g = subscribe(rx.from_(alt).pipe(decomp_op()), Snap())
                out.observed['bytes_like_runs'] += 1
                if chunking.frozen(alt) != before:
                    return out.fail('decompress-changed-the-chunks-it-was-given', chunk_type=ct)
                if g.err is not None or not g.done or b''.join(bytes(x) for x in g.out) != data:
                    return out.fail('decompress-mismatch-on-%s-chunks' % ct, subscription=turn, error=repr(g.err), got_len=sum(len(x) for x in g.out), want_len=len(data))
        # a chunk that is a buffer of WIDER items - a numpy float64 / int64 vector, an array('d') handed straight to the operator -
        # is its bytes: len() of it counts items, a memoryview of it is indexed in items
        if len(data) >= 16 and (len(data) <= (1 << 20) or len(data) >= 8 * (1 << 20) + 16) and not out.failures:
            import array
            import numpy
            data8 = data[:len(data) // 8 * 8]
            wide = [numpy.frombuffer(data8, dtype='<i8'), array.array('d', data8), numpy.frombuffer(data8, dtype='<f8')][(len(data) + len(comp)) % 3]
            half = len(wide) // 2
            g = subscribe(rx.from_([wide[:half], wide[half:]] if len(wide) <= (1 << 20) else [wide[:3], wide[3:]]).pipe(comp_op()), Snap())
            out.observed['wide_item_buffers_compressed'] += 1
            out.tags.append('chunks-that-are-buffers-of-wider-items')
            if len(wide) > (1 << 20):
                out.tags.append('wide-buffer-of-over-2**20-items')
            try:
                back = reference_decode(codec, b''.join(bytes(x) for x in g.out)) if g.err is None and g.done else None
            except Exception as e:      # noqa: BLE001
                back = repr(e)
            if back != data8:
                return out.fail('compress-of-a-buffer-of-wider-items-is-not-the-compression-of-its-bytes', error=repr(g.err), item_type=type(wide).__name__,
                                items=len(wide), got_len=len(back) if isinstance(back, bytes) else None, want_len=len(data8))
        if len(data) < 8192 and not out.failures:
            from ..progs import twin_subscriptions
            t = twin_subscriptions(lambda src: src.pipe(decomp_op()), list(c.out), out, 'decompress', lambda xs: b''.join(xs))
            if t is not None and t != data:
                out.fail('decompress-differs-with-two-live-subscribers', got_len=len(t), want_len=len(data))
            t = twin_subscriptions(lambda src: src.pipe(comp_op()), chunks, out, 'compress', lambda xs: reference_decode(codec, b''.join(xs)))
            if t is not None and t != data:
                out.fail('compress-differs-with-two-live-subscribers', got_len=len(t), want_len=len(data))
            if not out.failures:
                from ..progs import staggered_subscriptions
                t = staggered_subscriptions(lambda src: src.pipe(comp_op()), chunks, out, 'compress', lambda xs: reference_decode(codec, b''.join(xs)))
                if t is not None and t != data:
                    out.fail('compress-differs-with-staggered-streams-through-one-operator', got_len=len(t), want_len=len(data))
                t = staggered_subscriptions(lambda src: src.pipe(decomp_op()), chunking.cut(comp, [c for c in (1, len(comp) // 3, len(comp) // 2, len(comp) - 1) if 0 < c < len(comp)]),
                                            out, 'decompress', lambda xs: b''.join(xs))
                if t is not None and t != data:
                    out.fail('decompress-differs-with-staggered-streams-through-one-operator', got_len=len(t), want_len=len(data))
        # truncations
        truncs = case['truncs']
        if truncs == 'all':
            limit = 512 if case.get('tier', 'quick') == 'quick' else 2048
            if len(comp) <= limit:
                truncs = list(range(len(comp)))
            else:
                tr = random.Random(case['tseed'])
                truncs = sorted(set([0, 1, len(comp) - 1, len(comp) - 2, len(comp) // 2] +
                                    [tr.randrange(len(comp)) for _ in range(35)]))
        for t in truncs:
            if not 0 <= t < len(comp):
                continue
            pre = comp[:t]
            variants = [[pre]] if t else [[], [b'']]
            if t >= 2:
                variants.append([pre[:t // 2], pre[t // 2:]])
            for ch in variants:
                d = subscribe2(rx.from_(ch).pipe(decomp_op()), out, 'decompress(truncated)', same=lambda x, y: True, abuse=False)
                out.observed['truncations_checked'] += 1
                if d.done:
                    out.fail('truncated-stream-completed', trunc=t, compressed_len=len(comp),
                             chunk_sizes=[len(x) for x in ch])
                    break
                if d.err is None:
                    out.fail('truncated-stream-neither-error-nor-completion', trunc=t)
                    break
            if out.failures and out.failures[-1]['kind'].startswith('truncated'):
                break
        return out

    def shrink(self, case):
        sizes = case['data']['sizes']
        for k in range(len(sizes)):
            c = dict(case, data=dict(case['data'], sizes=sizes[:k] + sizes[k + 1:]))
            yield c
        for k, s in enumerate(sizes):
            if s > 1:
                yield dict(case, data=dict(case['data'], sizes=sizes[:k] + [s // 2] + sizes[k + 1:]))
        if len(case['rechunks']) > 1:
            for r in case['rechunks']:
                yield dict(case, rechunks=[r], truncs=[])
            yield dict(case, rechunks=[])


CHECK = C16()

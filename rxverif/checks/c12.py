"""C12 - math aggregates are accurate and numerically stable.

Events : every float emitted by sum, mean, min, max, variance, stddev, formal.variance,
         formal.stddev - after each item (streaming) and at completion (reduce) - on plain
         observables, on a multiplexed key, and per group under group_by (interleaved keys).
Oracle : exact statistics of the same floats (big-integer running sums, Fractions), with a
         condition-aware forward error bound; min/max exact; last streaming value == reduce
         value exactly; variance of < 2 items exactly 0.
"""
import math
import random
from fractions import Fraction

import rx

from ..common import Check, Outcome, Snap, subscribe, bootstrap
from ..muxmon import tap

rs = bootstrap()

U = 2.0 ** -53
OPS = ['sum', 'mean', 'min', 'max', 'variance', 'stddev', 'fvariance', 'fstddev']


def make_op(name, reduce, km):
    kw = {'reduce': reduce}
    if km:
        kw['key_mapper'] = lambda i: i[1]
    return {
        'sum': rs.math.sum, 'mean': rs.math.mean, 'min': rs.math.min, 'max': rs.math.max,
        'variance': rs.math.variance, 'stddev': rs.math.stddev,
        'fvariance': rs.math.formal.variance, 'fstddev': rs.math.formal.stddev,
    }[name](**kw)


def build_data(spec):
    r = random.Random(spec['dseed'])
    n, kind, off, sc = spec['n'], spec['kind'], spec['offset'], spec['scale']
    xs = []
    for i in range(n):
        if kind == 'gauss':
            z = r.gauss(0, 1)
        elif kind == 'uniform':
            z = r.uniform(-1, 1)
        elif kind == 'constant':
            z = 0.0
        elif kind == 'alternating':
            z = 1.0 if i % 2 else -1.0
        elif kind == 'outlier':
            z = r.gauss(0, 1) * (1000.0 if r.random() < 0.01 else 1.0)
        elif kind == 'small_ints':
            # few distinct values, many repeats: items land exactly on the running mean
            xs.append(int(off) + r.randint(0, 3))
            continue
        elif kind == 'plateau':
            # a constant prefix, then variation (floats): the first items equal the running mean exactly
            z = 0.0 if i < max(2, n // 3) else r.choice([0.0, 1.0, -1.0, 0.5, r.gauss(0, 1)])
        elif kind == 'lattice':
            z = float(r.randint(-2, 2)) / 2
        elif kind == 'py_int_ns':
            # plain Python ints the size of nanosecond timestamps: each fits in 64 bits, the sum of 64+ of them does not
            xs.append(1_600_000_000_000_000_000 + r.randint(0, 3_600_000_000_000) * 3)
            continue
        elif kind == 'outlier_first':
            # the first item lies far from all the others (a missing-data sentinel, a boot value): algorithms that centre on the
            # first item lose digits like n**2
            z = (-9999.0 if spec['dseed'] % 2 else 1e6) if i == 0 else r.gauss(0, 1)
        elif kind == 'sorted_heavy':
            # heavy-tailed data in descending order
            z = 1e4 / (1 + i) ** 2
        elif kind == 'late_spikes':
            # ordinary data with a spike every 25 items: the newest item is often far from the mean, early and late in the sequence
            z = r.gauss(0, 1) * (1000.0 if i % 25 == 24 else 1.0)       # (positions of both parities)
        elif kind in ('int_first', 'int_float_mix'):
            # numbers as JSON / CSV deliver them: 1000000 next to 1000000.25 - a plain Python int FIRST and floats after it, or ints
            # and floats in any order (a choice of algorithm made from the first item's type meets the other type later)
            z = r.gauss(0, 1)
            if (i == 0) if kind == 'int_first' else (r.random() < 0.4):
                xs.append(int(off) + int(round(sc * z)))
                continue
        elif kind == 'top_binade':
            # finite values in the top binade of the double range with mixed signs (+-inf replaced by +-float max through
            # numpy.nan_to_num, float max used as a finite bound): every partial sum - and so every exact statistic of the
            # location family - is finite, but a DIFFERENCE of two items or of an item and a running mean is not
            import sys
            tot = sum(Fraction(v) for v in xs)
            sign = -1.0 if tot > 0 else 1.0 if tot < 0 else r.choice([-1.0, 1.0])
            # (magnitudes up to 0.75 max: every exact partial sum then stays within 0.75 max, a quarter of the range away from
            # overflow - with magnitudes up to max, an exact total of +1e290 whose floating-point value is -1e292 made the next,
            # negative, item overflow a correctly rounded running sum: thorough sweep, seed 7)
            xs.append(sign * r.choice([0.5, 0.75, 0.625, r.uniform(0.5, 0.75)]) * sys.float_info.max)
            continue
        elif kind in ('np_int64', 'np_int32'):
            # numpy fixed-width integers with a spread whose SQUARE does not fit the type (nanosecond timestamps a few
            # seconds apart; int32 counters): an intermediate computed in the item's own type wraps around silently
            import numpy
            if kind == 'np_int64':
                xs.append(numpy.int64(100_000_000_000_000 + r.randint(0, 9_000_000_000)))     # (1e14: sums of 10^4 such items still fit int64)
            else:
                xs.append(numpy.int32(r.randint(-100_000, 100_000)))
            continue
        else:   # int
            xs.append(int(off) + r.randint(-1000, 1000) * max(1, int(sc)))
            continue
        xs.append(off + sc * z)
    return xs


class Exact:
    """running exact statistics over floats/ints using scaled big integers"""
    K = 1100            # every double is an integer multiple of 2**-1074

    def __init__(self):
        self.n = 0
        self.s1 = 0
        self.s2 = 0
        self.sabs = 0
        self.mn = None
        self.mx = None

    def add(self, x):
        if type(x).__module__ == 'numpy':
            x = x.item()
        p, q = (x, 1) if isinstance(x, int) else x.as_integer_ratio()
        X = p * ((1 << self.K) // q)
        self.n += 1
        self.s1 += X
        self.s2 += X * X
        self.sabs += abs(X)
        self.mn = x if self.mn is None or x < self.mn else self.mn
        self.mx = x if self.mx is None or x > self.mx else self.mx

    def sum(self):
        return Fraction(self.s1, 1 << self.K)

    def sumabs(self):
        return Fraction(self.sabs, 1 << self.K)

    def mean(self):
        return Fraction(self.s1, self.n << self.K)

    def var(self, ddof):
        n = self.n
        if n - ddof <= 0:
            return Fraction(0)
        return Fraction(self.s2 * n - self.s1 * self.s1, (n * (n - ddof)) << (2 * self.K))


def fl(fr):
    try:
        return float(fr)
    except OverflowError:
        return math.inf


def bound(op, ex, C=4.0):
    """forward error bound for the value emitted after ex.n items"""
    n = ex.n
    if n == 0:
        return 0.0
    if op == 'sum':
        return C * n * U * fl(ex.sumabs()) + 5e-324
    m = abs(fl(ex.mean()))
    if op == 'mean':
        return C * n * U * fl(ex.sumabs()) / n + 2 * U * m + 5e-324
    ddof = 1 if op in ('variance', 'stddev') else 0
    v = fl(ex.var(ddof))
    bv = C * n * U * (v + m * math.sqrt(v)) + C * n * n * U * U * m * m + 4 * U * v + 1e-320
    if op in ('variance', 'fvariance'):
        return bv
    sv = math.sqrt(v)
    b = math.sqrt(bv)
    if sv > 0:
        b = min(b, bv / sv)
    return b + 4 * U * sv + 1e-160


def exact_value(op, ex):
    if op == 'sum':
        return ex.sum()
    if op == 'mean':
        return ex.mean()
    if op in ('variance', 'stddev'):
        return ex.var(1)
    return ex.var(0)


class C12(Check):
    ID = 'C12'
    LEVEL = 'exploration'
    BUDGET = {'quick': 75, 'thorough': 240}
    RULE = ('case = (dataset: distribution gauss/uniform/int/constant/alternating/outlier/small-ints-with-repeats/plateau-then-variation/half-integer lattice x offset {0,+-1,1e3,1e6,1e9} x scale 1e-8..1e8 x '
            'n in {0,1,2,3,10,100,1000,2500 (quick), 10000 (thorough)} x data seed; operator in the eight aggregates; mode plain / one multiplexed key / '
            '3 interleaved groups under group_by; key_mapper on/off). Every prefix value of the streaming variant and the reduce value are compared '
            'with exact rational statistics under a bound C*n*u*(v+|m|sqrt(v)) + C*n^2*u^2*m^2 (C=4, u=2^-53; sum/mean: C*n*u*sum|x|). '
            'non-trivial = n >= 3 and non-constant data; distinct = hash of the case')
    ASSUMPTIONS = ['inputs are finite and neither their squares nor their sums overflow (for numpy fixed-width items: the items and their sums fit the type; the squares of their spread need not)',
                   'min/max of an empty sequence with reduce=True emit None (pinned by the suite); mean of an empty sequence is outside the domain']
    ANCHORS = ['rxsci/math/sum.py', 'rxsci/math/mean.py', 'rxsci/math/min.py', 'rxsci/math/max.py', 'rxsci/math/variance.py',
               'rxsci/math/stddev.py', 'rxsci/math/formal/variance.py', 'rxsci/math/formal/stddev.py', 'rxsci/math/formal/__init__.py']
    REQUIRED_TAGS = ['op=' + o for o in OPS] + ['plain', 'mux', 'group', 'km', 'n=0', 'n=1', 'n>=1000', 'n>1024', 'offset>=1e6', 'kind=np_int64', 'kind=np_int32', 'kind=outlier_first', 'kind=py_int_ns', 'kind=int_first', 'kind=int_float_mix', 'kind=top_binade', 'groups-of-different-magnitudes', 'formal-operator-streaming-over-8192-items', 'linear-operator-over-8192-items-on-one-key']
    REQUIRED_OBSERVED = ['values_compared', 'stream_equals_reduce_checks']

    def generate(self, rng, tier, shard, nshards):
        ncases = 750 if tier == 'quick' else 10 ** 7
        kinds = ['gauss', 'uniform', 'int', 'constant', 'alternating', 'outlier', 'small_ints', 'plateau', 'lattice', 'np_int64', 'np_int32', 'outlier_first', 'sorted_heavy', 'py_int_ns', 'int_first', 'int_float_mix']
        offsets = [0.0, 1.0, -1.0, 1e3, 1e6, -1e6, 1e9]
        scales = [1e-8, 1e-3, 1.0, 1.0, 1e3, 1e8]
        ns = [0, 1, 2, 3, 10, 100, 1100, 1000, 100, 2500] if tier == 'quick' else [0, 1, 2, 3, 10, 100, 1000, 1000, 2500, 10000]
        modes = ['plain', 'mux', 'group']
        if shard == 0 or (tier == 'thorough' and shard == 1):
            # the formal operators in STREAMING mode on one sequence of more than 8192 items (quadratic: about ten seconds), every
            # emission judged - elsewhere only their reduce value is checked beyond 1200 items
            yield {'op': ('fvariance', 'fstddev')[shard], 'mode': 'plain', 'km': False, 'stream_all': True, 'watchdog_s': 600,
                   'data': {'kind': 'late_spikes', 'n': 8300 + shard * 500, 'offset': 1e3, 'scale': 1.0, 'dseed': rng.randrange(1 << 30)}}
        if shard == 0 or tier == 'thorough':
            # the linear-cost operators on ONE sequence of 8193 .. 10000 items (the upper end of the stated range): blocked or
            # compensated accumulation schemes flush every 2**k items (the dispersion operators on data whose FIRST item lies far from the
            # rest: shifted-data schemes centred on the first item lose their digits over such a length)
            for j, op_ in enumerate(('sum', 'mean', 'min', 'max', 'variance', 'stddev')):
                for mode_ in (('plain', 'mux') if tier == 'quick' else ('plain', 'mux', 'group')):
                    yield {'op': op_, 'mode': mode_, 'km': mode_ != 'plain' and j % 2 == 0, 'long_linear': True,
                           'data': {'kind': 'outlier_first' if op_ in ('variance', 'stddev') else ('small_ints', 'gauss', 'int')[(j + shard) % 3], 'n': (8193, 8200, 10000, 9000, 8193 + 4096, 10000)[(j + shard) % 6],
                                    'offset': (0.0, 1e3, 1.0)[(j + shard) % 3], 'scale': 1.0, 'dseed': rng.randrange(1 << 30)}}
        for k in range(ncases):
            op = OPS[k % len(OPS)]
            n = ns[(k // len(OPS)) % len(ns)]
            if n == 1100 and op not in ('fvariance', 'fstddev'):
                n = 100         # (the 1100-item slot is for the formal operators: just beyond the 1000 items their documentation names)
            mode = modes[(k // 3) % 3] if k % 5 else modes[k % 3]
            kind = rng.choice(kinds)
            if (k // len(OPS)) % 6 == 5 and op in ('sum', 'mean', 'min', 'max'):
                kind = 'top_binade'      # (only where the exact statistic itself is representable: not the dispersion family)
                n = min(n, 100)
            yield {'op': op, 'mode': mode, 'km': (k // 7) % 3 == 0,
                   'data': {'kind': kind, 'n': n, 'offset': rng.choice(offsets), 'scale': rng.choice(scales),
                            'dseed': rng.randrange(1 << 30)}}

    # ------------------------------------------------------------------
    def _run(self, case, datasets, reduce):
        """-> list (one per dataset) of emitted values, or None + failure"""
        op, mode = case['op'], case['mode']
        km = case['km'] or mode == 'group'
        if mode == 'group':
            merged = []
            r = random.Random(case['data']['dseed'] ^ 0x5a5a)
            idx = [0] * len(datasets)
            order = [g for g, d in enumerate(datasets) for _ in d]
            r.shuffle(order)
            for g in order:
                merged.append((g, datasets[g][idx[g]]))
                idx[g] += 1
            head, tail = [], []
            pipe = rs.state.with_memory_store([rs.ops.group_by(lambda i: i[0], [tap(head, deep=False), make_op(op, reduce, True), tap(tail, deep=False)])])
            s = subscribe(rx.from_(merged).pipe(pipe), Snap())
            if s.err is not None or not s.done:
                return None, {'error': repr(s.err), 'done': s.done}
            key_group = {}
            for e in head:
                if e[0] == 'N':
                    key_group[e[1]] = e[2][0]
            outs = [[] for _ in datasets]
            for e in tail:
                if e[0] == 'N':
                    if e[1] not in key_group:
                        return None, {'error': 'output for a key that received no item', 'key': repr(e[1])}
                    outs[key_group[e[1]]].append(e[2])
            return outs, None
        data = datasets[0]
        items = [('x', v) for v in data] if km else data
        o = make_op(op, reduce, km)
        if mode == 'plain':
            s = subscribe(rx.from_(items).pipe(o), Snap())
        else:
            s = subscribe(rx.from_(items).pipe(rs.state.with_memory_store([o])), Snap())
        if s.err is not None or not s.done:
            return None, {'error': repr(s.err), 'done': s.done}
        return [s.out], None

    def evaluate(self, case):
        out = Outcome()
        op, mode = case['op'], case['mode']
        spec = case['data']
        n = spec['n']
        if op == 'mean' and n == 0:
            n = 1
            spec = dict(spec, n=1)
        out.tags += ['op=' + op, mode, 'n=%d' % n if n < 4 else ('n>=1000' if n >= 1000 else 'n=mid'), 'kind=' + spec['kind']]
        if case['km']:
            out.tags.append('km')
        if abs(spec['offset']) >= 1e6:
            out.tags.append('offset>=1e6')
        if case.get('long_linear') and n > 8192:
            out.tags.append('linear-operator-over-8192-items-on-one-key')
        if n > 1024:
            out.tags.append('n>1024')
        if case.get('stream_all'):
            out.tags.append('formal-operator-streaming-over-8192-items')
        if mode == 'group':
            # the interleaved groups live at clearly different magnitudes (1, 1e-6, 1e6 times the case's scale and offset):
            # whatever one key's aggregate leaks into another's is then far above the bound
            mag = [1.0, 1e-6, 1e6] if spec['dseed'] % 2 else [1.0, 1.0, 1.0]
            datasets = [build_data(dict(spec, dseed=spec['dseed'] + g, n=max(0, n - g) if n < 4 else n // (g + 1),
                                        scale=spec['scale'] * mag[g], offset=spec['offset'] * mag[g])) for g in range(3)]
            if mag[1] != 1.0:
                out.tags.append('groups-of-different-magnitudes')
            datasets = [d for d in datasets if d] or [build_data(dict(spec, n=1))]
        else:
            datasets = [build_data(spec)]
        if n >= 3 and spec['kind'] != 'constant':
            out.nontrivial = True

        # the formal operators recompute both moments over all items after every item: O(n^2) in streaming mode.
        # Beyond 1200 items only their reduce value is checked (still against the exact statistic of all n items).
        reduce_only = op in ('fvariance', 'fstddev') and n > 1200 and not case.get('stream_all')
        if reduce_only:
            out.tags.append('reduce-only')
            stream = None
        else:
            stream, f1 = self._run(case, datasets, False)
            if stream is None:
                return out.fail('streaming-run-failed', **f1)
        red, f2 = self._run(case, datasets, True)
        if red is None:
            return out.fail('reduce-run-failed', **f2)

        for g, data in enumerate(datasets):
            rv = red[g]
            if reduce_only:
                ex = Exact()
                for x in data:
                    ex.add(x)
                if len(rv) != 1:
                    return out.fail('reduce-count-differs', want=1, got=len(rv), group=g)
                if self._check_value(out, op, ex, rv[0], 'reduce', len(data) - 1, g):
                    return out
                continue
            sv = stream[g]
            if len(sv) != len(data):
                return out.fail('streaming-count-differs', want=len(data), got=len(sv), group=g)
            if len(rv) != 1:
                if not (mode == 'group' and len(data) == 0):
                    return out.fail('reduce-count-differs', want=1, got=len(rv), group=g)
            ex = Exact()
            worst = 0.0
            for i, x in enumerate(data):
                ex.add(x)
                f = self._check_value(out, op, ex, sv[i], 'streaming', i, g)
                if f:
                    return out
            if len(data) == 0:
                f = self._check_value(out, op, ex, rv[0], 'reduce', -1, g)
                if f:
                    return out
            else:
                f = self._check_value(out, op, ex, rv[0], 'reduce', len(data) - 1, g)
                if f:
                    return out
                out.observed['stream_equals_reduce_checks'] += 1
                a, b = [v.item() if type(v).__module__ == 'numpy' else v for v in (sv[-1], rv[0])]     # numpy scalars: by value
                if not (a == b and type(a) is type(b)):
                    return out.fail('last-streaming-value-differs-from-reduce-value', streaming=repr(a), reduce=repr(b), n=len(data), group=g)
        return out

    def _check_value(self, out, op, ex, got, phase, i, g):
        out.observed['values_compared'] += 1
        if type(got).__module__ == 'numpy' and getattr(got, 'shape', None) == ():
            got = got.item()            # a numpy scalar result (numpy items): judged by its value
        n = ex.n
        if op in ('min', 'max'):
            want = ex.mn if op == 'min' else ex.mx
            if n == 0:
                ok = got is None
            else:
                ok = got == want and not isinstance(got, bool)
            if not ok:
                out.fail('min-max-not-exact', op=op, phase=phase, index=i, want=repr(want), got=repr(got), group=g)
                return True
            return False
        if not isinstance(got, (int, float)) or isinstance(got, bool) or (isinstance(got, float) and not math.isfinite(got)):
            out.fail('not-a-finite-number', op=op, phase=phase, index=i, got=repr(got), group=g)
            return True
        if op in ('variance', 'stddev') and n < 2:
            if got != 0:
                out.fail('variance-of-fewer-than-two-items-not-zero', op=op, phase=phase, n=n, got=repr(got), group=g)
                return True
            return False
        exact = exact_value(op, ex)
        if op in ('stddev', 'fstddev'):
            # compare squares exactly where possible: |got - sqrt(v)| <= B
            sv = math.sqrt(fl(exact)) if exact > 0 else 0.0
            err = abs(got - sv)
            # sqrt(fl(exact)) itself carries <= 2u relative error, covered by the 4u term of the bound
        else:
            err = fl(abs(Fraction(got) - exact))
        b = bound(op, ex)
        if got < 0 and op not in ('sum', 'mean'):
            out.fail('negative-dispersion', op=op, phase=phase, index=i, got=repr(got), group=g)
            return True
        if err > b:
            mech = 'formal-variance-streaming-zero' if (op in ('fvariance', 'fstddev') and phase == 'streaming' and got == 0.0) else None
            out.fail('error-exceeds-bound', mech=mech, op=op, phase=phase, index=i, n=n, got=repr(got), exact=repr(fl(exact)),
                     error=err, bound=b, ratio=(err / b if b else math.inf), group=g)
            return True
        if b > 0 and err / b > self.worst:
            self.worst = err / b
        return False

    worst = 0.0

    def extra_evidence(self):
        return {'max_observed_error_over_bound': round(self.worst, 6)}

    def shrink(self, case):
        n = case['data']['n']
        for m in (n // 2, n - 1, 3, 2):
            if 0 <= m < n:
                yield dict(case, data=dict(case['data'], n=m))
        if case['mode'] != 'plain':
            yield dict(case, mode='plain')
        if case['km']:
            yield dict(case, km=False)


CHECK = C12()

"""C11 - streaming promptness: results are emitted with the item that determines them.

Events : the source is a Subject driven one item at a time; the harness sets a cursor to j before
         pushing item j (len(items) before on_completed); the final subscriber records
         (cursor, value) for every output.
Oracle : the causal reference model (model.py): same values at the same source positions.
         Outputs that share a position below a multi-slot roll (ceil(w/s) > 1) are compared as
         multisets (the delivery order between simultaneously open windows is not specified).
"""
from rx.subject import Subject

from ..common import Check, Outcome, Snap, bootstrap, norm, with_prelude, prelude_tags, shrink_prelude, PRELUDE_TAGS, PRELUDE_RULE
from .. import gen, model, progs
from ..muxmon import Monitor

rs = bootstrap()


def has_multislot(prog):
    for _, n in progs.walk(prog):
        if n[0] == 'roll' and n[1] > n[2]:
            return True
    return False


def drive(prog, items, mode, env=None, prelude=None):
    if prelude:
        return progs.run_driven(prog, items, mode, env, prelude=prelude)
    cursor = [None]
    snap = Snap(cursor)
    subj = Subject()
    ops_ = progs.build(prog, env)
    if mode == 'mux':
        obs = subj.pipe(rs.state.with_memory_store(ops_))
    else:
        obs = subj.pipe(*ops_) if ops_ else subj
    try:
        obs.subscribe(on_next=snap.on_next, on_error=snap.on_error, on_completed=snap.on_completed)
        for j, x in enumerate(items):
            cursor[0] = j
            subj.on_next(x)
        cursor[0] = len(items)
        subj.on_completed()
    except Exception as e:          # noqa: BLE001
        if snap.err is None:
            snap.err = e
    return snap


def compare(got, want, unordered):
    """got/want: lists of (position, normalised value) -> None or a description"""
    if not unordered:
        if got == want:
            return None
        for k, (a, b) in enumerate(zip(got, want)):
            if a != b:
                return {'first_difference_at_output': k, 'got': a, 'want': b}
        return {'output_count': {'got': len(got), 'want': len(want)},
                'extra': (got[len(want):] or want[len(got):])[:3]}
    gp, wp = [p for p, _ in got], [p for p, _ in want]
    if gp != wp:
        return {'positions_differ': True, 'got': gp[:40], 'want': wp[:40]}
    from collections import defaultdict
    g, w = defaultdict(list), defaultdict(list)
    for p, v in got:
        g[p].append(repr(v))
    for p, v in want:
        w[p].append(repr(v))
    for p in g:
        if sorted(g[p]) != sorted(w[p]):
            return {'position': p, 'got_multiset': sorted(g[p])[:6], 'want_multiset': sorted(w[p])[:6]}
    return None


class C11(Check):
    ID = 'C11'
    LEVEL = 'exploration'
    BUDGET = {'quick': 75, 'thorough': 240}
    RULE = ('case = (program from the typed generator: up to 5 top-level operators, nesting depth <= 3 of group_by / roll / split / time_split / tee_map '
            'around stateless, stateful, reducing and batching operators; input of 0..30 ints (every 700th case at scale: ~700 items, take/batch/lag 257+, roll windows of 257-400, 300-1000 groups, day-scale time_split timeouts on datetime stamps); mode multiplexed, or plain for programs made of '
            'dual-mode operators without take/first). The source is a Subject; every output is stamped with the index of the item being pushed. '
            'non-trivial = at least one output before completion and at least one at completion; distinct = hash of (program, input, mode)')
    RULE += PRELUDE_RULE
    ASSUMPTIONS = ['the reference model (rxverif/model.py) is the specification of what determines each output; it is cross-checked by the '
                   'model-free differential checks C01/C02/C08 and by the literal expectations of the repository tests (model_selftest)',
                   'order-sensitive operators are never generated downstream of a roll with ceil(w/s) > 1 (delivery order between open windows is unspecified)',
                   'first/last/mean(reduce) on an empty key are outside the domain (discarded by the model)']
    ANCHORS = ['rxsci/data/roll.py', 'rxsci/data/split.py', 'rxsci/data/time_split.py', 'rxsci/operators/group_by.py',
               'rxsci/operators/tee_map.py', 'rxsci/operators/scan.py', 'rxsci/data/batch.py', 'rxsci/operators/multiplex.py']
    REQUIRED_TAGS = ['roll', 'split', 'time_split', 'group_by', 'tee_map', 'batch', 'scan', 'mux', 'plain', 'depth>=2', 'scale', 'two-output-router'] + ['history-fed-more-than-the-judged-stream'] + PRELUDE_TAGS
    REQUIRED_OBSERVED = ['outputs_positioned', 'outputs_before_completion', 'outputs_at_completion', 'cold_scheduler_runs_compared']

    def generate(self, rng, tier, shard, nshards):
        return with_prelude(self._generate(rng, tier, shard, nshards), rng, size=lambda c: len(c['items']))

    def _generate(self, rng, tier, shard, nshards):
        n = 15000 if tier == 'quick' else 10 ** 7
        for k in range(n):
            if k % 300 == 150:
                # a per-item ROUTER with two outputs (rs.data.train_test_split: both outputs must be subscribed, so the program
                # generator cannot place it): every item leaves on one of the two outputs while it is being processed
                yield {'router': {'test_ratio': rng.choice([0.5, 0.25, 0.2, 0.1, 0.34]), 'sampling_size': rng.choice([1, 1, 2, 3, 5, 8])},
                       'prog': [], 'items': [rng.randint(0, 99) for _ in range(rng.choice([0, 1, 7, 10, 31]))], 'mode': 'plain'}
                continue
            if k % 700 == 350:
                # scale: sizes beyond CPython's small-int cache and typical block sizes (take/batch/lag 257+, roll windows
                # of 257-400 items, 300-1000 groups, day-scale time_split timeouts) on streams of ~700 items
                if (k // 700) % 3 == 2:
                    cfg = {'active': rng.choice([None, 86400, 90000, 604800]), 'inactive': rng.choice([None, 86400, 172800]),
                           'closing': rng.choice([None, 'modeq:7:0']), 'include': rng.random() < 0.5, 'time': rng.choice(['dt', 'dtz'])}
                    t, items = 0, []
                    for _ in range(rng.choice([10, 60])):
                        t += rng.choice([0, 1, 3600, 86399, 86400, 86401, 172800, 31536000, 90000])
                        items.append(t)
                    yield {'prog': [['time_split', cfg, [['to_list']]]], 'items': items, 'mode': 'mux'}
                    continue
                opts = gen.GenOpts(model_safe=True, max_depth=1, scale=True, exclude_ops=('fvariance', 'fstddev'), allow_progress=False)
                prog, _ = gen.gen_pipeline(rng, 'i', rng.randint(1, 3), opts)
                yield {'prog': prog, 'items': [rng.randint(0, 1000) for _ in range(rng.choice([300, 700]))], 'mode': 'mux'}
                continue
            plain = (k % 5 == 0)
            if plain:
                opts = gen.GenOpts(model_safe=True, dual_only=True, max_depth=2, exclude_ops=('take', 'first'))
            else:
                opts = gen.GenOpts(model_safe=True, max_depth=rng.choice([1, 2, 2, 3]))
            prog, _ = gen.gen_pipeline(rng, 'i', rng.randint(1, 5), opts)
            items = gen.gen_items(rng, hi=rng.choice([6, 12, 30]), sorted_=rng.random() < 0.3)
            if 'time_split' in progs.op_names(prog):
                items = sorted(items)       # (timestamps are non-decreasing in the domain of C07; the model discards what an upstream operator scrambles)
            yield {'prog': prog, 'items': items, 'mode': 'plain' if plain else 'mux'}

    def _eval_router(self, case, out):
        from ..progs import Controlled, call
        items = case['items']
        out.tags.append('two-output-router')
        src = Controlled()
        cfg = case['router']
        outs = call(rs.data.train_test_split, [('test_ratio', cfg['test_ratio']), ('sampling_size', cfg['sampling_size'])])(src.observable)
        journal, done, errs = [], [], []
        for name, o in zip(('train', 'test'), outs):
            o.subscribe(on_next=lambda v, name=name: journal.append((len(pushed) - 1, name, v)), on_error=errs.append, on_completed=lambda name=name: done.append(name))
        pushed = []
        try:
            for x in items:
                pushed.append(x)
                src.push(x)
            src.complete()
        except Exception as e:      # noqa: BLE001
            errs.append(e)
        if errs or sorted(done) != ['test', 'train']:
            return out.fail('router-did-not-complete-both-outputs', errors=[repr(e) for e in errs][:2], completed=done)
        out.observed['outputs_positioned'] += len(journal)
        out.observed['outputs_before_completion'] += len(journal)
        if len(items) >= 2:
            out.nontrivial = True
        if [(p, v) for p, _, v in journal] != list(enumerate(items)):
            late = [(p, nm, v) for k_, (p, nm, v) in enumerate(journal) if k_ < len(items) and p != k_]
            return out.fail('output-not-at-the-determining-item', what='train_test_split', cfg=cfg, n_items=len(items),
                            want=[[k_, v] for k_, v in enumerate(items)][:12], got=[[p, nm, v] for p, nm, v in journal][:12], first_late=late[:1])
        return out

    def evaluate(self, case):
        out = Outcome()
        if case.get('router'):
            return self._eval_router(case, out)
        prog, items, mode = case['prog'], case['items'], case['mode']
        names = progs.op_names(prog)
        out.tags += sorted(set(names)) + [mode]
        if progs.depth(prog) >= 2:
            out.tags.append('depth>=2')
        if len(items) >= 300 or (items and max(items) > 10 ** 5):
            out.tags.append('scale')
        try:
            want = model.run(prog, items, plain=(mode == 'plain'))
        except model.Discard as d:
            out.discarded = str(d)
            return out
        snap = drive(prog, items, mode, prelude=case.get('prelude'))
        if case.get('prelude') and not (mode == 'plain' and 'tee_map' in names):
            prelude_tags(dict(case, prelude=progs.usable_prelude(prog, case['prelude'])), out)
        if snap.err is not None:
            if isinstance(snap.err, ValueError) and 'truth value of an array' in str(snap.err) and 'npvec' in repr(prog):
                # (a comparison of values holding the numpy vector state: the user's type error - section 9, items 13 and 21 - which
                # the model only meets when its own copies of the arrays are compared)
                out.discarded = 'comparison of numpy arrays has no truth value'
                return out
            return out.fail('stream-error-where-the-model-expects-items', error=repr(snap.err), emitted=len(snap.out))
        if not snap.done:
            return out.fail('stream-did-not-complete')
        got = list(zip(snap.pos, [norm(v) for v in snap.out]))
        want = [(t, norm(v)) for t, v in want]
        n = len(items)
        out.observed['outputs_positioned'] += len(got)
        out.observed['outputs_before_completion'] += sum(1 for p, _ in got if p < n)
        out.observed['outputs_at_completion'] += sum(1 for p, _ in got if p == n)
        if any(p < n for p, _ in got) and any(p == n for p, _ in got):
            out.nontrivial = True
        diff = compare(got, want, has_multislot(prog))
        if diff is not None:
            late = [g for g, w in zip(got, want) if g[1] == w[1] and g[0] > w[0]]
            early = [g for g, w in zip(got, want) if g[1] == w[1] and g[0] < w[0]]
            out.fail('output-not-at-the-determining-item', late=len(late), early=len(early), n_items=n, **diff)
            return out
        if mode == 'plain' and not case.get('prelude'):
            # the same program on a COLD source subscribed with an explicit scheduler (what rs.run does: a trampoline; also the
            # immediate one): a journal of "item consumed" / "output" events gives every output its source position, which must be
            # the position it has in the pushed run
            import rx
            import rx.operators as rxops
            from rx.scheduler import CurrentThreadScheduler, ImmediateScheduler
            for sched_name, sched in (('CurrentThreadScheduler()', CurrentThreadScheduler()), ('ImmediateScheduler()', ImmediateScheduler())):
                journal = []
                ops_ = [rxops.do_action(on_next=lambda x: journal.append('in'), on_completed=lambda: journal.append('end'))] + progs.build(prog)
                errs = []
                try:
                    rx.from_(list(items)).pipe(*ops_).subscribe(on_next=lambda v: journal.append(('out', norm(v))), on_error=errs.append, scheduler=sched)
                except Exception as e:      # noqa: BLE001
                    errs.append(e)
                pos, cold = -1, []
                for ev in journal:
                    if ev == 'in':
                        pos += 1
                    elif ev == 'end':
                        pos = n
                    else:
                        cold.append((pos, ev[1]))
                out.observed['cold_scheduler_runs_compared'] += 1
                if errs or cold != got:
                    k_ = next((i for i, (a, b) in enumerate(zip(cold, got)) if a != b), min(len(cold), len(got)))
                    out.fail('output-position-depends-on-the-scheduler', scheduler=sched_name, error=repr(errs[:1]), first_difference=k_,
                             cold=cold[k_:k_ + 4], pushed=got[k_:k_ + 4], n_cold=len(cold), n_pushed=len(got))
                    return out
        return out

    def shrink(self, case):
        yield from shrink_prelude(case)
        items = case['items']
        for k in range(len(items)):
            yield dict(case, items=items[:k] + items[k + 1:])
        for c in shrink_prog(case):
            if progs.well_typed(c['prog']) is not None:
                yield c


def shrink_prog(case, key='prog'):
    """drop top-level operators; replace a context by its inner pipeline; drop tee branches"""
    prog = case[key]
    for k in range(len(prog)):
        yield dict(case, **{key: prog[:k] + prog[k + 1:]})
    for k, n in enumerate(prog):
        if n[0] in ('group_by', 'roll', 'split', 'time_split'):
            yield dict(case, **{key: prog[:k] + n[-1] + prog[k + 1:]})
            for sub in shrink_prog({'p': n[-1]}, 'p'):
                yield dict(case, **{key: prog[:k] + [n[:-1] + [sub['p']]] + prog[k + 1:]})
        elif n[0] == 'tee_map':
            for j, b in enumerate(n[2]):
                yield dict(case, **{key: prog[:k] + b + prog[k + 1:]})
                if len(n[2]) > 2:
                    yield dict(case, **{key: prog[:k] + [[n[0], n[1], n[2][:j] + n[2][j + 1:]]] + prog[k + 1:]})
                for sub in shrink_prog({'p': b}, 'p'):
                    if sub['p']:
                        yield dict(case, **{key: prog[:k] + [[n[0], n[1], n[2][:j] + [sub['p']] + n[2][j + 1:]]] + prog[k + 1:]})


CHECK = C11()

"""C18 - CSV dump/load round-trips typed rows.

Events : rows delivered by csv.load / load_from_file; completion / error.
Oracle : load(parser)(unframe(dump(rows))) == rows, field by field (floats by value AND sign,
         strings exact, types exact), same through dump_to_file / load_from_file.
"""
import math
import os
import random
import shutil
import struct
import tempfile
from collections import namedtuple

import rx

from ..common import FILE_NAME_TAGS, Check, Outcome, Snap, subscribe, subscribe2, bootstrap, WORK

rs = bootstrap()
from ..progs import call          # noqa: E402  (positional / keyword calling conventions, see progs.call)
import rxsci.container.csv as csv                    # noqa: E402
import rxsci.framing.line as line                    # noqa: E402

SEPS = [',', ';', '|', '\t', '||', '::', ', ']
ESCS = ['\\', '^']
TYPES = {'int': int, 'float': float, 'bool': bool, 'str': str}

SPECIAL_FLOATS = [0.0, -0.0, 1.5, -1.5, -0.5, 0.5, -0.25, 0.1, -0.1, 1e-05, -1e-05, 1e16, -1e16, 1e22, 123456789.12345679,
                  0.30000000000000004, 5e-324, 1.7976931348623157e308, -2.2250738585072014e-308, 1 / 3, -1 / 3,
                  100.0, -100.0, 1234.5678, -1234.5678, 2.5e-7, 9007199254740993.0, 0.1 + 0.7, 4.35, -4.35, 1.0000000000000002]


def gen_float(r, kind):
    if kind == 'special':
        return r.choice(SPECIAL_FLOATS)
    if kind == 'bits':
        while True:
            x = struct.unpack('<d', struct.pack('<Q', r.getrandbits(64)))[0]
            if math.isfinite(x):
                return x
    if kind == 'decimal':
        return round(r.uniform(-1000, 1000), r.randint(0, 6))
    if kind == 'digits17':
        return r.uniform(0, 1) * 10 ** r.randint(-3, 6) * r.choice([1, -1])
    return float(r.randint(-1000, 1000))


def gen_str(r, kind, sep, esc):
    base = 'ab Z'
    if kind == 'plain':
        alpha = base
    elif kind == 'blank':
        alpha = ' \t' + base if sep != '\t' else ' ' + base
    elif kind == 'quote':
        alpha = '"' + base
    elif kind == 'escape':
        alpha = esc + base
    elif kind == 'sep':
        alpha = sep + base
    elif kind == 'unicode':
        alpha = '\xe9€\U0001f600' + base
    elif kind == 'control':
        # characters that str.splitlines() - but not csv, and not a text file opened with universal newlines - treats as line
        # boundaries: VT, FF, FS, GS, RS, NEL, LS, PS (form feeds from PDF text, GS1 separators in barcodes, U+2028 from the web)
        alpha = '\x0b\x0c\x1c\x1d\x1e\x85\u2028\u2029' + base + sep[0]
    elif kind == 'lookalike':
        # text that spells a value of ANOTHER column type (digit-only codes next to an int column holding the same numbers, 'True'
        # next to a bool column, '3.0' next to a float column): what a field becomes depends on its column, never on its text alone
        return r.choice(['0', '1', '-1', '42', '-7', 'True', 'False', '1.5', '-0.5', '3.0', '100.0', '0.0', '-0.0', '1e-05', '0.1', 'None', 'nan',
                         str(r.randint(-1000, 1000)), str(float(r.randint(-1000, 1000))), '9223372036854775807', '100000000000000000000'])
    elif kind == 'dense_unicode':
        # almost every byte of the file belongs to a 2-4 byte character: some character straddles each 64 KiB read boundary
        return ''.join(r.choice('\xe9€\U0001f600\u4e2d\ufeff\ufeff' + sep[0]) for _ in range(r.randint(15, 40)))
    else:                      # adversarial: everything
        alpha = sep + '"' + esc + ' a' + sep[0]
    n = r.choice([0, 1, 1, 2, 3, 4, r.randint(0, 12)])
    if kind == 'huge':
        # string fields far beyond typical field-size limits (4 KiB ... 300 KiB), with separators / quotes / escapes inside
        alpha = sep + '"' + esc + ' ab'
        unit = ''.join(r.choice(alpha) for _ in range(61))
        return unit * r.choice([70, 1200, 2300, 5000])
    return ''.join(r.choice(alpha) for _ in range(n))


def build_rows(spec, cols, sep, esc):
    r = random.Random(spec['rseed'])
    rows = []
    for _ in range(spec['n']):
        row = []
        for t in cols:
            if t == 'int':
                row.append(r.choice([0, 1, -1, 42, -7, 2**63 - 1, -2**63, 10**20, r.randint(-10**6, 10**6)]))
            elif t == 'float':
                row.append(gen_float(r, spec['fkind'] if spec['fkind'] != 'mixed' else
                                     r.choice(['special', 'bits', 'decimal', 'digits17', 'integral'])))
            elif t == 'bool':
                row.append(r.random() < 0.5)
            else:
                row.append(gen_str(r, spec['skind'] if spec['skind'] != 'mixed' else
                                   r.choice(['plain', 'blank', 'quote', 'escape', 'sep', 'unicode', 'adversarial', 'control', 'lookalike']), sep, esc))
        rows.append(row)
    return rows


class FreshRows:
    """an iterable that builds every row anew at each iteration and keeps no reference to it"""

    def __init__(self, row_type, rows):
        self.row_type = row_type
        self.rows = rows

    def __len__(self):
        return len(self.rows)

    @staticmethod
    def fresh(v):
        if isinstance(v, bool) or v is None:
            return v
        if isinstance(v, str):
            return ''.join(list(v)) if v else v
        if isinstance(v, float):
            return float.fromhex(v.hex())
        if isinstance(v, int):
            return int(str(v))
        return v

    def __iter__(self):
        for r in self.rows:
            yield self.row_type(*[self.fresh(v) for v in r])


def same_field(a, b):
    if type(a) is not type(b):
        return False
    if isinstance(a, float):
        return a == b and math.copysign(1.0, a) == math.copysign(1.0, b)
    return a == b


class C18(Check):
    ID = 'C18'
    LEVEL = 'exploration'
    BUDGET = {'quick': 75, 'thorough': 240}
    RULE = ('case = (1..8 typed columns, separator from {, ; | tab || :: ", "}, escape char \\ or ^, row-set spec (count, string class, '
            'float class, data seed), transport stream|file, file encoding None|utf-8). String classes: plain, blanks at any position incl. '
            'first/last, double quotes, escape chars, separators, unicode, adversarial mix of all (no \\n/\\r); float classes: special values '
            '(-0.0, negative fractions, 17 significant digits, subnormal, max), random 64-bit patterns (finite), short decimals, 17-digit, integral. '
            'The schema is given in each documented form: list of (name, class), list of (name, type name), typing.NamedTuple class, none (header). Files of 1500..4000 rows cross the 64 KiB read boundary several times. non-trivial = the row set contains a string with a special '
            'character (separator, quote, escape char, blank) or a non-integral float; distinct = hash of the case')
    ASSUMPTIONS = ['strings contain no newline characters; separator does not contain the quote or escape character (domain of the property)',
                   'floats are finite and compared with == plus sign']
    ANCHORS = ['rxsci/container/csv.py', 'rxsci/io/file.py', 'rxsci/framing/line.py']
    REQUIRED_TAGS = ['the-default-parser-of-the-library', 'newline=CRLF', 'loader-built-before-the-dump', 'target-exists-empty'] + FILE_NAME_TAGS + ['stream', 'file', 'enc=None', 'enc=utf-8', 'multi-chunk-file', 'cols=1', 'cols=8',
                     'skind=adversarial', 'skind=huge', 'skind=control', 'skind=lookalike', 'fkind=bits', 'sep=,', 'sep=;', 'sep=|', 'sep=tab', 'sep=multi', 'pushed-source', 'multibyte-char-across-a-64KiB-boundary', 'rows-not-retained',
                     'schema=names', 'schema=typed_namedtuple', 'schema=header']
    REQUIRED_OBSERVED = ['fields_compared', 'rows_needing_quote_merge']

    _parsers = {}

    def __init__(self):
        self.tmp = None

    def _tmpdir(self):
        if self.tmp is None or not os.path.isdir(self.tmp):
            os.makedirs(WORK, exist_ok=True)
            self.tmp = tempfile.mkdtemp(prefix='c18-', dir=WORK)
            import atexit
            atexit.register(shutil.rmtree, self.tmp, True)
        return self.tmp

    def generate(self, rng, tier, shard, nshards):
        # the file-name classes (common.FILE_NAME_CLASSES) are taken in turn by the cases that write to a path
        turn = shard
        for case in self._gen_cases(rng, tier, shard, nshards):
            if case.get('mode') == 'file':
                case = dict(case, fsel=turn)
                turn += 1
            yield case

    def _gen_cases(self, rng, tier, shard, nshards):
        n = 8400 if tier == 'quick' else 10 ** 7
        nfiles = 14 if tier == 'quick' else 60
        skinds = ['plain', 'blank', 'quote', 'escape', 'sep', 'unicode', 'adversarial', 'mixed', 'control', 'lookalike']
        fkinds = ['special', 'bits', 'decimal', 'digits17', 'integral', 'mixed']
        file_every = max(1, n // nfiles) if tier == 'quick' else 700
        for k in range(n):
            if k % 600 == 30:
                yield {'cols': ['str', 'int', 'str'], 'sep': SEPS[(k // 600) % len(SEPS)], 'esc': ESCS[(k // 600) % 2],
                       'rows': {'n': rng.choice([1, 3]), 'skind': 'huge', 'fkind': 'special', 'rseed': rng.randrange(1 << 30)},
                       'mode': ('stream', 'file')[(k // 1200) % 2], 'encoding': (None, 'utf-8')[(k // 2400) % 2]}
                continue
            ncols = rng.choice([1, 2, 3, 4, 8]) if k % 7 else (1, 8)[(k // 7) % 2]
            cols = [rng.choice(['int', 'float', 'bool', 'str', 'str', 'float']) for _ in range(ncols)]
            if k % 3 == 0 and 'str' not in cols:
                cols[rng.randrange(ncols)] = 'str'
            is_file = (k % file_every == 0)
            big = is_file and (k // file_every) % 2 == 0
            if big and len(cols) < 4:
                cols = cols + [rng.choice(['int', 'float', 'bool', 'str', 'str', 'float']) for _ in range(4)]
            if big and (k // file_every) % 4 == 0:
                cols = ['str', 'int', 'str', 'str']
            # the documented schema forms: list of (name, class), list of (name, type NAME), a typing.NamedTuple class, and no
            # schema at all (the header names the columns, every field is a string)
            schema = rng.choice(('classes', 'classes', 'classes', 'names', 'names', 'typed_namedtuple', 'typed_namedtuple', 'header'))     # (drawn: the string / float classes below turn with k)
            if schema == 'header':
                cols = ['str'] * len(cols)
            yield {'cols': cols, 'sep': rng.choice(SEPS), 'esc': rng.choice(ESCS), 'schema': schema,       # (drawn: k % 7 also decides the column count)
                   'rows': {'n': rng.randint(1500, 4000) if big else rng.choice([0, 1, 2, 5, 20]),
                            'skind': 'dense_unicode' if (big and (k // file_every) % 4 == 0) else skinds[k % len(skinds)], 'fkind': rng.choice(fkinds),
                            'rseed': rng.randrange(1 << 30)},
                   'mode': 'file' if is_file else 'stream',
                   'encoding': (None, 'utf-8')[(k // file_every) % 4 // 2] if is_file else None}

    def evaluate(self, case):
        from ..common import in_dir
        with in_dir(self._tmpdir()):
            return self._evaluate(case)

    def _evaluate(self, case):
        out = Outcome()
        cols, sep, esc = case['cols'], case['sep'], case['esc']
        rows = build_rows(case['rows'], cols, sep, esc)
        names = ['c%d' % i for i in range(len(cols))] if case['rows']['rseed'] % 2 else ['%s%d' % ('zyxwvuts'[i], i) for i in range(len(cols))]
        Row = namedtuple('Row', names)
        src = [Row(*r) for r in rows]
        if case['rows']['rseed'] % 3 == 0:
            # rows produced on the fly and not retained (a generator, load | map | dump): every field is a NEW object that dies
            # as soon as its row has been written, so object ids are re-used from row to row
            src = FreshRows(Row, rows)
            out_tag_fresh = True
        else:
            out_tag_fresh = False
        schema = case.get('schema', 'classes')
        if schema == 'names':
            dtype = [(n, ''.join(list(t))) for n, t in zip(names, cols)]
        elif schema == 'typed_namedtuple':
            import typing
            dtype = typing.NamedTuple('Row', [(n, TYPES[t]) for n, t in zip(names, cols)])
        elif schema == 'header':
            dtype = None
        else:
            dtype = [(n, TYPES[t]) for n, t in zip(names, cols)]
        out.tags.append('schema=' + schema)
        # parser objects are built once per configuration and serve every later table of that configuration (a parser kept around by
        # the application): a header-derived parser - and the library's own default parser - meets tables with DIFFERENT headers
        pkey = ('header', sep, esc) if schema == 'header' else (schema, sep, esc, tuple(cols), tuple(names))
        if pkey not in self._parsers:
            self._parsers[pkey] = call(csv.create_line_parser, [('dtype', dtype), ('none_values', []), ('separator', sep), ('escapechar', esc)])
        parser = self._parsers[pkey]
        use_default = schema == 'header' and sep == ',' and esc == '\\' and case['rows']['rseed'] % 2 == 0
        if use_default:
            out.tags.append('the-default-parser-of-the-library')
        if out_tag_fresh:
            out.tags.append('rows-not-retained')
        out.tags += [case['mode'], 'cols=%d' % len(cols), 'skind=' + case['rows']['skind'], 'fkind=' + case['rows']['fkind'],
                     'sep=' + ('tab' if sep == '\t' else sep if len(sep) == 1 else 'multi'), 'esc=' + esc]
        special = set(sep) | {'"', esc, ' ', '\t'}
        for r in rows:
            for v in r:
                if (isinstance(v, str) and special & set(v)) or (isinstance(v, float) and not v.is_integer()):
                    out.nontrivial = True
            if any(isinstance(v, str) and sep in v for v in r):
                out.observed['rows_needing_quote_merge'] += 1

        if case['mode'] == 'stream':
            got = subscribe2(rx.from_(src).pipe(call(csv.dump, [('header', True), ('separator', sep), ('escapechar', esc)]), line.unframe(),
                                                csv.load() if use_default else call(csv.load, [('parse_line', parser)])), out, 'dump | unframe | load', same=lambda x, y: repr(x) == repr(y))
        else:
            enc = case['encoding']
            out.tags.append('enc=%s' % enc)
            from ..common import file_path
            path = file_path(self._tmpdir(), 'f.csv', '.csv', case.get('fsel', 0), out)
            if os.path.exists(path):
                os.unlink(path)
            early = None
            if case['rows']['rseed'] % 3 == 1:
                # observables are lazy: the loader is BUILT before the dump runs (target absent, or present and empty), subscribed after
                if case['rows']['rseed'] % 2:
                    open(path, 'wb').close()
                    out.tags.append('target-exists-empty')
                out.tags.append('loader-built-before-the-dump')
                early = call(csv.load_from_file, [('filename', path), ('parse_line', parser), ('skip', 0), ('encoding', case['encoding'])])
            # the documented `newline` parameter of dump_to_file: '\n' or the CRLF of files made for / on Windows (read back through
            # a text-mode file, which translates line ends)
            nl = '\r\n' if case['rows']['rseed'] % 4 == 1 else '\n'
            if nl != '\n':
                out.tags.append('newline=CRLF')
            try:
                if len(src) % 2:
                    # pushed source + file read back inside the completion callback (see progs.dump_pushed)
                    from ..progs import dump_pushed
                    out.tags.append('pushed-source')
                    w = dump_pushed(lambda o: o.pipe(call(csv.dump_to_file, [('filename', path), ('header', True), ('separator', sep), ('escapechar', esc), ('newline', nl), ('encoding', enc)])), src, path, out, 'csv.dump_to_file')
                    if out.failures:
                        return out
                else:
                    w = subscribe(rx.from_(src).pipe(call(csv.dump_to_file, [('filename', path), ('header', True), ('separator', sep), ('escapechar', esc), ('newline', nl), ('encoding', enc)])), Snap())
            except Exception as e:      # noqa: BLE001
                w = Snap()
                w.err = e
            if w.err is not None or not w.done:
                mech = 'csv-dump-to-file-encoding-none' if enc is None else None
                return out.fail('dump_to_file-failed', mech=mech, error=repr(w.err), done=w.done, encoding=enc)
            if not os.path.exists(path):
                return out.fail('dump_to_file-completed-without-creating-the-file', rows=len(rows), encoding=enc)
            size = os.path.getsize(path)
            out.observed['file_bytes'] += size
            if size > 65536:
                out.tags.append('multi-chunk-file')
                with open(path, 'rb') as fb:
                    raw = fb.read()
                if any((raw[b] & 0xC0) == 0x80 for b in range(65536, len(raw), 65536)):
                    out.tags.append('multibyte-char-across-a-64KiB-boundary')
            got = subscribe2(early if early is not None else csv.load_from_file(path, encoding=enc) if use_default else call(csv.load_from_file, [('filename', path), ('parse_line', parser), ('skip', 0), ('encoding', enc)]), out, 'load_from_file', same=lambda x, y: repr(x) == repr(y))

        def mech_of(i=None, j=None):
            """mechanism classifier (only used if a finding is recorded as known instead of fixed)"""
            if j is not None and cols[j] == 'float':
                return 'csv-parse-decimal'
            return None

        if got.err is not None:
            return out.fail('load-error', mech=None, error=repr(got.err)[:300], rows=rows[:6], sep=sep, esc=esc)
        if not got.done:
            return out.fail('load-no-completion')
        if len(got.out) != len(rows):
            return out.fail('row-count-differs', want=len(rows), got=len(got.out))
        for i, (a, g) in enumerate(zip(rows, got.out)):
            if len(g) != len(a):
                return out.fail('field-count-differs', row=i, want=a, got=list(g))
            for j, (x, y) in enumerate(zip(a, g)):
                out.observed['fields_compared'] += 1
                if not same_field(x, y):
                    return out.fail('field-differs', mech=mech_of(i, j), row=i, col=j, type=cols[j], want=x, got=y,
                                    want_repr=repr(x), got_repr=repr(y), whole_row=a, sep=sep, esc=esc)
        return out

    def shrink(self, case):
        n = case['rows']['n']
        for m in (0, n // 2, n - 1):
            if 0 <= m < n:
                yield dict(case, rows=dict(case['rows'], n=m))
        if len(case['cols']) > 1:
            for k in range(len(case['cols'])):
                yield dict(case, cols=case['cols'][:k] + case['cols'][k + 1:])


CHECK = C18()

"""C17 - incremental text encode/decode is chunk-boundary independent.

Events : byte chunks emitted by encode(); strings / completion / error of decode().
Oracle : ''.join(decode(rechunk(concat(encode(strs))))) == ''.join(strs); second, independent
         of rxsci's decoder: concat(encode(strs)).decode(enc) (one-shot stdlib) == text - a
         repeated byte-order mark would surface there as U+FEFF.
"""
import itertools

import random

import rx

from .. import chunking
from ..common import Check, Outcome, Snap, subscribe, subscribe2, bootstrap, interleave

rs = bootstrap()
from ..progs import call          # noqa: E402  (positional / keyword calling conventions, see progs.call)

ENCODINGS = ['utf-8', 'utf-16', 'utf-32', 'latin-1']
# other legal spellings of the same four encodings (codecs.lookup resolves them to the same codec)
SPELLINGS = {'utf-8': ['utf8', 'UTF-8', 'utf_8', 'U8', 'UTF8'], 'utf-16': ['utf16', 'UTF-16', 'utf_16', 'U16', 'Utf16'],
             'utf-32': ['utf32', 'UTF-32', 'utf_32', 'U32'], 'latin-1': ['latin1', 'latin_1', 'iso-8859-1', 'L1', 'ISO8859-1', '8859', 'LATIN-1']}
ALPHA = {
    'ascii': 'ab \x00\n',
    'latin': 'a\xe9\xff\xf1\x80\x00',
    'bmp': 'a\u20ac\u4e2d\u0301\u200d\ufffd\ud7ff\ue000',
    'bomlike': 'ab\ufeff\ufffe\u00ff\u00fe',          # ZERO WIDTH NO-BREAK SPACE / noncharacter FFFE: look like byte-order marks mid-text
    'astral': 'a\U0001f600\U0001d11e\U0010ffff\u0301\xe9\U00010000',
}
SMALL_STRS = ['', 'a', '\xe9', '\u20ac', '\U0001f600', 'e\u0301', '\x00', 'ab', '\ufeff']


def char_boundaries(text, encoding, blob):
    """Byte offsets in blob that fall between two characters (incl. after a BOM)."""
    body = text.encode({'utf-16': 'utf-16-le', 'utf-32': 'utf-32-le'}.get(encoding, encoding))
    bom = len(blob) - len(body)
    if bom < 0:
        return None
    pos = bom
    b = {0, bom}
    enc1 = {'utf-16': 'utf-16-le', 'utf-32': 'utf-32-le'}.get(encoding, encoding)
    for ch in text:
        pos += len(ch.encode(enc1))
        b.add(pos)
    return b


class C17(Check):
    ID = 'C17'
    LEVEL = 'exploration'
    BUDGET = {'quick': 30, 'thorough': 240}      # (the exhaustive box is 'as much as fits'; the required classes come first)
    RULE = ('case = (encoding, list of strings, cut set over the encoded bytes, empty-chunk flag); quick: every cut set of every '
            'encoded stream <= 9 bytes built from 0..3 strings of {"", a, é, €, 😀, e+combining acute, NUL, ab}, every single cut of '
            'random texts (ASCII / Latin-1 / BMP / astral / combining alphabets, up to 400 chars), random cut sets with empty chunks; '
            'thorough: streams <= 12 bytes exhaustively, all double cuts <= 120 bytes, more random. Encodings utf-8, utf-16, utf-32, '
            'latin-1 (alphabet restricted to < U+0100 there). non-trivial = a cut falls inside a multi-byte sequence (or inside the BOM); '
            'distinct = hash of the case')
    ASSUMPTIONS = ['lone surrogates are not text and are not generated',
                   'stdlib one-shot codecs are the reference for the meaning of the bytes']
    ANCHORS = ['rxsci/data/codec.py']
    REQUIRED_TAGS = ENCODINGS + ['cut-in-char', 'empties', 'empty-string', 'astral', 'empty-list', 'string>64Ki', 'alias-spelling', 'chunk-decoding-to-exactly-2**k-characters', 'chunks-as-bytearray', 'chunks-as-memoryview', 'items-as-str-subclass-instances', 'text-starting-with-the-byte-order-mark-of-another-encoding', 'one-chunk-of-over-64MiB']
    REQUIRED_OBSERVED = ['triples_of_staggered_subscriptions', 'pairs_of_concurrently_alive_subscriptions', 'second_subscriptions_of_one_observable']

    _ops = {}

    def _mk(self, enc, strs, cuts, empties=False):
        return {'encoding': enc, 'strs': list(strs), 'cuts': list(cuts), 'empties': empties}

    def generate(self, rng, tier, shard, nshards):
        if shard == 0:
            # a single chunk of more than 64 MiB with an odd length (quick), and of more than 128 MiB not divisible by 3 (thorough)
            yield {'giant': (64 << 20) + 1 + 8 * 3 + 5, 'encoding': 'latin-1', 'strs': [], 'cuts': [], 'watchdog_s': 300}
            if tier == 'thorough':
                yield {'giant': (128 << 20) + 8 * 5 + 7, 'encoding': 'utf-8', 'strs': [], 'cuts': [], 'watchdog_s': 400}
                yield {'giant': (64 << 20) + 8 * 7 + 3, 'encoding': 'utf-8', 'strs': [], 'cuts': [], 'watchdog_s': 400}
        for n, case in enumerate(self._generate(rng, tier, shard, nshards)):
            if n % 3 == 2:
                sp = SPELLINGS[case['encoding']]
                case = dict(case, spelling=sp[(n // 3) % len(sp)])
            yield case

    def _generate(self, rng, tier, shard, nshards):
        r2 = random.Random(rng.randrange(1 << 30))
        return interleave(self._small(tier, shard, nshards), self._random(rng, tier), self._rand(r2, tier))

    def _small(self, tier, shard, nshards):
        small = 9 if tier == 'quick' else 12
        idx = 0
        for enc in ENCODINGS:
            alpha = [s for s in SMALL_STRS if enc != 'latin-1' or all(ord(c) < 256 for c in s)]
            for n in range(0, 4):
                for strs in itertools.product(alpha, repeat=n):
                    try:
                        ln = len(''.join(strs).encode(enc))
                    except UnicodeEncodeError:
                        continue
                    if ln > small:
                        continue
                    idx += 1
                    if idx % nshards != shard:
                        continue
                    for cuts in chunking.all_cut_sets(ln):
                        yield self._mk(enc, strs, cuts)
                    yield self._mk(enc, strs, tuple(range(1, ln)), empties=True)
        self.box_done = 1

    def _rand_strs(self, rng, enc):
        kinds = ['ascii', 'latin'] if enc == 'latin-1' else list(ALPHA)
        kind = rng.choice(kinds)
        n = rng.choice([0, 1, 2, 3, 6, 12])
        strs = []
        for _ in range(n):
            ln = rng.choice([0, 1, 1, 2, 5, rng.randint(0, 60)])
            strs.append(''.join(rng.choice(ALPHA[kind]) for _ in range(ln)))
        return strs

    def _random(self, rng, tier):
        nsingle = 60 if tier == 'quick' else 300
        dbl = 0 if tier == 'quick' else 120
        for k in range(nsingle):
            enc = ENCODINGS[k % 4]
            strs = self._rand_strs(rng, enc)
            ln = len(''.join(strs).encode(enc))
            if ln <= dbl:
                for cuts in chunking.single_and_double_cuts(ln):
                    yield self._mk(enc, strs, cuts)
            else:
                for a in range(1, ln):
                    yield self._mk(enc, strs, (a,))

    def _rand(self, rng, tier):
        nrand = 2000 if tier == 'quick' else 10 ** 7
        for k in range(nrand):
            enc = rng.choice(ENCODINGS)
            if k % 250 == 60:
                # a chunk that decodes to EXACTLY 2**j characters (a file read in 1 / 4 / 8 / 16 MiB blocks): text splitters with a
                # maximum item size see a remainder of zero
                j = [20, 22, 23, 24, 21][(k // 250) % 5]
                enc = ['latin-1', 'utf-8', 'utf-16', 'latin-1', 'utf-32'][(k // 250) % 5]
                unit = 'abcdefgh' if enc != 'latin-1' else 'abcd\xe9fgh'
                block = unit * ((1 << j) // 8)
                strs = ['head', block, block[:1 << 18], 'tail'] if (k // 250) % 2 else ['', '', block, '', 'tail']
                blob = ''.join(strs).encode(enc)
                # cuts on the byte offsets where the 2**j-character block starts and ends
                a = len((strs[0]).encode(enc)) or 2
                b = len((''.join(strs[:3]) if not strs[0] else 'head' + block).encode(enc))
                yield dict(self._mk(enc, strs, (a, b), empties=False), exact_block=j)
                continue
            if k % 25 == 7:
                # text whose first bytes, in ITS encoding, are the byte-order mark / signature of ANOTHER encoding (latin-1 used as a
                # byte-transparent codec on data that starts with FF FE; U+FEFF / U+FFFE as content): the declared encoding decides
                heads = {'latin-1': ['\xff\xfe', '\xfe\xff', '\xef\xbb\xbf', '\xff\xfe\x00\x00', '\x00\x00\xfe\xff', '+/v8'],
                         'utf-8': ['\ufeff', '\xff\xfe', '+/v8', '\ufffe'], 'utf-16': ['\ufffe', '\ufeff', '\xff\xfe'], 'utf-32': ['\ufffe', '\ufeff', '\xff\xfe']}[enc]
                head = heads[(k // 25) % len(heads)]
                rest = self._rand_strs(rng, enc)
                strs = [head + (rest[0] if rest else '')] + rest[1:] if (k // 25) % 2 else [head[:1], head[1:]] + rest
                ln = len(''.join(strs).encode(enc))
                cuts = [(), (2,), (3, 5), (4,), (1,), chunking.random_cuts(rng, ln, 5)][(k // 50) % 6]
                yield dict(self._mk(enc, strs, [c for c in cuts if 0 < c < ln], empties=False), bomlike=True)
                continue
            if k % 250 == 125:
                # scale: single strings beyond 65536 characters (block-wise encoders), not first and first in the stream
                enc = ENCODINGS[(k // 250) % 4]
                a = ALPHA['latin' if enc == 'latin-1' else rng.choice(['bmp', 'astral', 'ascii'])]
                big = ''.join(rng.choice(a) for _ in range(997)) * rng.choice([67, 140])
                strs = [['x', big, 'y', '', big[:5]], [big, 'tail'], ['', big]][(k // 1000) % 3]
                ln = len(''.join(strs).encode(enc))
                yield self._mk(enc, strs, sorted(set(rng.randrange(1, ln) for _ in range(6))), empties=rng.random() < 0.5)
                continue
            strs = self._rand_strs(rng, enc)
            ln = len(''.join(strs).encode(enc))
            yield self._mk(enc, strs, chunking.random_cuts(rng, ln, rng.choice([1, 3, 10, 50])),
                           empties=rng.random() < 0.4)

    def _eval_giant(self, case, out):
        """one chunk of more than 64 / 128 MiB (a whole file read with size=-1): light form - the text is a short unit repeated, the
        decoded stream is compared by length, head, tail and a digest of the whole"""
        import hashlib
        enc, nbytes = case['encoding'], case['giant']
        out.tags += [enc, 'one-chunk-of-over-64MiB']
        out.nontrivial = True
        unit = 'abcdefg\xe9' if enc == 'latin-1' else 'abcdef\xe9'           # (utf-8: 8 bytes per unit, the last character takes two)
        text = unit * (nbytes // 8) + 'xyz'[:(nbytes % 8) or 3] + '\xe9'
        ref = text.encode(enc)
        e = subscribe(rx.from_([text]).pipe(self._giant_ops(enc)[0]), Snap())
        if e.err is not None or not e.done or b''.join(e.out) != ref:
            return out.fail('encode-of-a-giant-string-differs', error=repr(e.err), got_len=sum(len(x) for x in e.out), want_len=len(ref))
        want = hashlib.sha1(text.encode('utf-8', 'surrogatepass')).hexdigest()
        for how, chunks in (('one chunk', [ref]), ('giant chunk first', [ref[:-5], ref[-5:]]), ('giant chunk last', [ref[:3], ref[3:]])):
            d = subscribe(rx.from_(chunks).pipe(self._giant_ops(enc)[1]), Snap())
            out.observed['giant_chunks_decoded'] += 1
            got = ''.join(d.out) if d.err is None and all(isinstance(x, str) for x in d.out) else None
            if got is None or not d.done or len(got) != len(text) or hashlib.sha1(got.encode('utf-8', 'surrogatepass')).hexdigest() != want:
                return out.fail('decode-of-a-giant-chunk-differs', chunking=how, error=repr(d.err), chunk_bytes=[len(c) for c in chunks],
                                got_chars=None if got is None else len(got), want_chars=len(text), got_tail=None if got is None else got[-8:], want_tail=text[-8:])
        return out

    _giant = {}

    def _giant_ops(self, enc):
        if enc not in self._giant:
            self._giant[enc] = (call(rs.data.encode, [('encoding', enc)]), call(rs.data.decode, [('encoding', enc)]))
        return self._giant[enc]

    def evaluate(self, case):
        out = Outcome()
        if case.get('giant'):
            return self._eval_giant(case, out)
        enc = case['encoding']
        strs = case['strs']
        text = ''.join(strs)
        out.tags.append(enc)
        if not strs:
            out.tags.append('empty-list')
        if any(s == '' for s in strs):
            out.tags.append('empty-string')
        if any(ord(c) > 0xffff for c in text):
            out.tags.append('astral')
        if any(len(x) > 65536 for x in strs):
            out.tags.append('string>64Ki')

        # operator objects are built once per encoding and re-subscribed for every case: codec state must
        # belong to the subscription, not to the operator (BOM written once PER STREAM, no bytes carried over)
        name = case.get('spelling', enc)        # the name handed to rxsci; `enc` (canonical) is what the oracles use
        if name != enc:
            out.tags.append('alias-spelling')
        if case.get('exact_block'):
            out.tags.append('chunk-decoding-to-exactly-2**k-characters')
        if name not in self._ops:
            self._ops[name] = (call(rs.data.encode, [('encoding', name)]), call(rs.data.decode, [('encoding', name)]))
        enc_op, dec_op = self._ops[name]
        e = subscribe2(rx.from_(strs).pipe(enc_op), out, 'encode')
        if e.err is not None or not e.done:
            return out.fail('encode-failed', error=repr(e.err), done=e.done)
        if not all(isinstance(x, bytes) for x in e.out):
            return out.fail('encode-emitted-non-bytes', types=[type(x).__name__ for x in e.out])
        blob = b''.join(e.out)
        out.observed['encoded_bytes'] += len(blob)
        # second oracle, independent of rxsci's decoder (BOM written once)
        try:
            oneshot = blob.decode(enc)
        except UnicodeError as ex:
            return out.fail('encoded-bytes-not-decodable-by-stdlib', error=repr(ex), blob=blob)
        if oneshot != text:
            return out.fail('encoded-bytes-mean-something-else', want=text, got=oneshot, blob=blob)

        # the byte-order mark is written exactly once per stream: present for a non-empty utf-16/32 text
        # (a second one would have surfaced above as U+FEFF)
        if enc in ('utf-16', 'utf-32') and text:
            import codecs
            boms = (codecs.BOM_UTF16_LE, codecs.BOM_UTF16_BE) if enc == 'utf-16' else (codecs.BOM_UTF32_LE, codecs.BOM_UTF32_BE)
            out.observed['bom_checks'] += 1
            if not blob.startswith(boms):
                return out.fail('byte-order-mark-missing', encoding=enc, head=blob[:8])
        # the decoder is also fed bytes it did not produce itself (stdlib one-shot encoding, cut the same way)
        ref = text.encode(enc)
        rcuts = [c for c in case['cuts'] if 0 < c < len(ref)]
        dr = subscribe2(rx.from_(chunking.cut(ref, rcuts)).pipe(dec_op), out, 'decode(stdlib bytes)')
        if dr.err is not None or not dr.done or ''.join(dr.out) != text:
            return out.fail('decode-of-stdlib-encoded-bytes-differs', error=repr(dr.err), want=text, got=''.join(x for x in dr.out if isinstance(x, str)),
                            chunks=chunking.cut(ref, rcuts))
        cuts = [c for c in case['cuts'] if 0 < c < len(blob)]
        chunks = chunking.cut(blob, cuts)
        if case['empties']:
            chunks = chunking.insert_empties_everywhere(chunks, b'')
            out.tags.append('empties')
        bounds = char_boundaries(text, enc, blob) if len(blob) <= (1 << 21) else None      # (only used to classify the case)
        if bounds is not None and any(c not in bounds for c in cuts):
            out.nontrivial = True
            out.tags.append('cut-in-char')

        d = subscribe2(rx.from_(chunks).pipe(dec_op), out, 'decode')
        out.observed['chunks_decoded'] += len(chunks)
        if d.err is not None:
            return out.fail('decode-error', error=repr(d.err), chunks=chunks)
        if not d.done:
            return out.fail('decode-no-completion', chunks=chunks)
        if not all(isinstance(x, str) for x in d.out):
            return out.fail('decode-emitted-non-str', types=[type(x).__name__ for x in d.out])
        got = ''.join(d.out)
        if got != text:
            return out.fail('decode-mismatch', want=text, got=got, chunks=chunks)
        if case.get('bomlike'):
            out.tags.append('text-starting-with-the-byte-order-mark-of-another-encoding')
        if strs and len(text) <= 4096:
            # the same text as str SUBCLASS instances (str() / format() / repr() say something else than the text): same bytes
            from ..common import LoudStr, str_enum_members
            for how, alt in (('str-subclass', [LoudStr(x) for x in strs]), ('str-enum', str_enum_members(strs))):
                g = subscribe(rx.from_(alt).pipe(enc_op), Snap())
                if g.err is not None or not g.done or b''.join(g.out) != blob:
                    return out.fail('encode-of-%s-items-differs-from-the-encoding-of-their-text' % how, error=repr(g.err), want=blob[:100], got=b''.join(x for x in g.out if isinstance(x, bytes))[:100])
            out.tags.append('items-as-str-subclass-instances')
        # the same chunks as bytearray objects / as memoryview slices of one buffer (zero-copy re-chunking), consumed twice as the
        # same objects: same text, and the chunks are left as they were handed over
        ct = chunking.BYTES_LIKE[(len(cuts) + len(strs) + len(blob)) % 3]
        if ct != 'bytes' and len(blob) <= (1 << 20):
            out.tags.append('chunks-as-' + ct)
            alt = chunking.bytes_like(chunks, ct)
            before = chunking.frozen(alt)
            for turn in (1, 2):
                g = subscribe(rx.from_(alt).pipe(dec_op), Snap())
                out.observed['bytes_like_runs'] += 1
                if chunking.frozen(alt) != before:
                    return out.fail('decode-changed-the-chunks-it-was-given', chunk_type=ct, before=before, after=chunking.frozen(alt))
                if g.err is not None or not g.done or not all(isinstance(x, str) for x in g.out) or ''.join(g.out) != text:
                    return out.fail('decode-mismatch-on-%s-chunks' % ct, subscription=turn, want=text, got=''.join(x for x in g.out if isinstance(x, str)),
                                    error=repr(g.err), chunks=before)
        if len(blob) <= 4096:
            from ..progs import twin_subscriptions
            t = twin_subscriptions(lambda src: src.pipe(dec_op), chunks, out, 'decode', lambda xs: ''.join(xs))
            if t is not None and t != text:
                return out.fail('decode-mismatch-with-two-live-subscribers', want=text, got=t, chunks=chunks)
            t = twin_subscriptions(lambda src: src.pipe(enc_op), strs, out, 'encode', lambda xs: b''.join(xs))
            if t is not None and t != blob:
                return out.fail('encode-differs-with-two-live-subscribers', want=blob, got=t)
            from ..progs import staggered_subscriptions
            t = staggered_subscriptions(lambda src: src.pipe(dec_op), chunks, out, 'decode', lambda xs: ''.join(xs))
            if t is not None and t != text:
                return out.fail('decode-differs-with-staggered-streams-through-one-operator', want=text, got=t, chunks=chunks)
            t = staggered_subscriptions(lambda src: src.pipe(enc_op), strs, out, 'encode', lambda xs: b''.join(xs))
            if t is not None and t != blob:
                return out.fail('encode-differs-with-staggered-streams-through-one-operator', want=blob, got=t)
        return out

    box_done = 0

    def extra_evidence(self):
        return {'shards_that_enumerated_their_part_of_the_box_completely': self.box_done}

    def shrink(self, case):
        for k in range(len(case['strs'])):
            yield dict(case, strs=case['strs'][:k] + case['strs'][k + 1:])
        for k in range(len(case['cuts'])):
            yield dict(case, cuts=case['cuts'][:k] + case['cuts'][k + 1:])
        for k, s in enumerate(case['strs']):
            if len(s) > 1:
                yield dict(case, strs=case['strs'][:k] + [s[:len(s) // 2]] + case['strs'][k + 1:])
                yield dict(case, strs=case['strs'][:k] + [s[len(s) // 2:]] + case['strs'][k + 1:])
        if case['empties']:
            yield dict(case, empties=False)


CHECK = C17()

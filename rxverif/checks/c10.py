"""C10 - per-key sequence operators match their list semantics.

Events : the items each operator emits for one key (plain observable, one multiplexed key, or each
         of several interleaved groups under group_by, bucketed by a tap at the end of the group
         pipeline).
Oracle : one list function per operator (written here, independently of model.py).
"""
import itertools
import random

import rx

from ..common import Check, Outcome, Snap, subscribe, bootstrap, norm, interleave, with_prelude, prelude_tags, shrink_prelude, PRELUDE_TAGS, PRELUDE_RULE
from ..muxmon import tap
from .. import progs, gen

rs = bootstrap()

SYMS = [0, 1, 2, None]


def list_def(node, xs):
    name = node[0]
    if name == 'first':
        return xs[:1]
    if name == 'last':
        return xs[-1:]
    if name == 'take':
        return xs[:node[1]]
    if name == 'distinct':
        kf = KEYF[node[1]]
        seen, out = [], []
        for x in xs:
            k = kf(x)
            if not any(k == s for s in seen):
                seen.append(k)
                out.append(x)
        return out
    if name == 'duc':
        kf = KEYF[node[1]]
        out = []
        for i, x in enumerate(xs):
            if i == 0 or kf(x) != kf(xs[i - 1]):
                out.append(x)
        return out
    if name == 'lag':
        n = node[1]
        return [(xs[i - n] if i - n >= 0 else xs[0], xs[i]) for i in range(len(xs))]
    if name == 'pad_start':
        if not xs:
            return []
        return [progs.pad_value(node[2]) if node[2] is not None else xs[0]] * node[1] + list(xs)
    if name == 'pad_end':
        if not xs:
            return []
        return list(xs) + [progs.pad_value(node[2]) if node[2] is not None else xs[-1]] * node[1]
    if name == 'start_with':
        if not xs:
            return []
        return list(progs.padding_of(node)) + list(xs)
    if name == 'batch':
        n = node[1]
        return [list(xs[i:i + n]) for i in range(0, len(xs), n)]
    if name == 'sort':
        return sorted(xs, key=SORTKEY[node[1]], reverse=node[2])
    raise KeyError(name)


def _val(x):
    """the comparison value of an item: items are v or (group, v) pairs"""
    return x[1] if isinstance(x, tuple) else x


KEYF = {
    None: lambda x: x,
    'isnone': lambda x: _val(x) is None,
    'val': _val,
    'par': lambda x: (_val(x) or 0) % 2,
}
SORTKEY = {
    'self': lambda x: x,
    'k': lambda x: x[0],
    'negk': lambda x: -x[0],
}


def build_op(node):
    name = node[0]
    if name == 'sort':
        if node[1] == 'self':
            return rs.data.sort(reverse=node[2])
        return rs.data.sort(key=SORTKEY[node[1]], reverse=node[2])
    if name in ('distinct', 'duc'):
        f = KEYF[node[1]] if node[1] else None
        return rs.ops.distinct(f) if name == 'distinct' else rs.ops.distinct_until_changed(f)
    return progs.build_node(node)


def variants():
    """(node, modes)"""
    both = ('plain', 'mux', 'group', 'roll', 'split', 'sections')
    mux = ('mux', 'group', 'roll', 'split', 'sections')
    yield ['first'], both
    yield ['last'], both
    for n in (0, 1, 2, 3, 7):
        yield ['take', n], both
    for k in (None, 'isnone', 'par'):
        yield ['distinct', k], mux
        yield ['duc', k], both
    for n in (0, 1, 2, 3, 5):
        yield ['lag', n], mux
    for n in (0, 1, 2, 3):
        for v in (None, 9):
            yield ['pad_start', n, v], mux
            yield ['pad_end', n, v], mux
    # a padding value that happens to be callable (a converter / dtype / handler as the default of a stream of such): a value like
    # any other, emitted as it is
    for cv in ('str', 'len', 'function', 'partial'):
        yield ['pad_start', 2, {'callable': cv}], mux
        yield ['pad_end', 1, {'callable': cv}], mux
    yield ['start_with', [{'callable': 'str'}, 7, {'callable': 'function'}]], mux
    yield ['start_with', [7]], mux
    yield ['start_with', [7, None, 8]], mux
    yield ['start_with', []], mux
    # the padding as another re-iterable container than a list (the documentation's own example passes a tuple)
    for kind in ('tuple', 'range', 'deque', 'keys', 'nparray'):
        yield ['start_with', [7, 8], kind], mux
    yield ['start_with', [], 'tuple'], mux
    yield ['start_with', [7], 'range'], mux
    for n in (1, 2, 3, 4, 7):
        yield ['batch', n], both
    for k in ('k', 'negk'):
        for rev in (False, True):
            yield ['sort', k, rev], ('plain',)


VARIANTS = list(variants())


class C10(Check):
    ID = 'C10'
    LEVEL = 'exploration'
    BUDGET = {'quick': 75, 'thorough': 240}
    RULE = ('case = (operator with parameters, mode, sequence). Box: EVERY sequence over {0,1,2,None} of length <= 4 (quick) / 6 (thorough) x 55 operator variants '
            '(first, last, take n in {0,1,2,3,7}, distinct / distinct_until_changed with key None/isnone/parity, lag n in {0,1,2,3,5}, pad_start / pad_end n in 0..3 with value '
            'None/explicit, start_with (incl. empty padding), batch n in {1,2,3,4,7}, sort by key asc/desc on (key, tag) pairs to observe stability) x modes plain (where the '
            'operator supports it), one multiplexed key, per group under group_by with 2-3 interleaved groups, and per lifetime inside roll(2,2) windows and split segments (one key slot serving successive lifetimes); then random sequences of length up to 40 with lengths at and '
            'around multiples of n. non-trivial = sequence length >= 2; distinct = hash of the case')
    RULE += PRELUDE_RULE
    ASSUMPTIONS = ['first / last on an empty PLAIN observable raise by design and are not compared there',
                   'sort is documented for plain observables only; batch(0) and negative sizes are outside the statement']
    ANCHORS = ['rxsci/operators/first.py', 'rxsci/operators/last.py', 'rxsci/operators/take.py', 'rxsci/operators/distinct.py',
               'rxsci/operators/distinct_until_changed.py', 'rxsci/data/lag.py', 'rxsci/data/pad.py', 'rxsci/operators/start_with.py',
               'rxsci/data/batch.py', 'rxsci/data/sort.py']
    REQUIRED_TAGS = ['first', 'last', 'take', 'distinct', 'duc', 'lag', 'pad_start', 'pad_end', 'start_with', 'batch', 'sort',
                     'plain', 'mux', 'group', 'roll', 'split', 'scale', 'numpy-items', 'negative-values', 'empty', 'has-None', 'len-multiple-of-n', 'numpy-typed-parameters', 'two-store-sections'] + ['padding-as-' + k for k in ('tuple', 'range', 'deque', 'keys', 'nparray')] + ['padding-value-that-is-callable'] + PRELUDE_TAGS
    REQUIRED_OBSERVED = ['sequences_compared', 'triples_of_staggered_subscriptions']

    def generate(self, rng, tier, shard, nshards):
        def npp(cases):
            for n, c in enumerate(cases):
                if n % 7 == 3:
                    c = dict(c, npparam=('int64', 'int32', 'int8', 'uint8', 'int16')[(n // 7) % 5])
                yield c
        return with_prelude(npp(self._generate(rng, tier, shard, nshards)), rng, size=lambda c: len(c['seq']))

    def _generate(self, rng, tier, shard, nshards):
        return interleave(self._box(tier, shard, nshards), self._random(rng, tier))

    def _box(self, tier, shard, nshards):
        m = 4 if tier == 'quick' else 6
        idx = 0
        for ln in range(0, m + 1):
            for seq in itertools.product(SYMS, repeat=ln):
                for node, modes in VARIANTS:
                    for mode in modes:
                        idx += 1
                        if idx % nshards != shard:
                            continue
                        if mode in ('group', 'roll', 'split', 'sections') and (idx // nshards) % 3:
                            continue            # keyed modes on a third of the box (they run several sequences at once)
                        if tier == 'quick' and ln == m and (idx // nshards) % 2:
                            continue            # (quick: half of the longest sequences)
                        yield {'op': node, 'mode': mode, 'seq': list(seq), 'gseed': idx}
        self.box_done = 1

    def _random(self, rng, tier):
        k = 6000 if tier == 'quick' else 10 ** 7
        big = [(['take', 300], ('plain', 'mux', 'group')), (['lag', 300], ('mux', 'group')), (['batch', 257], ('plain', 'mux', 'group', 'roll')),
               (['batch', 1000], ('plain', 'mux')), (['pad_start', 300, 9], ('mux',)), (['pad_end', 260, None], ('mux',)),
               (['distinct', None], ('mux', 'group')), (['take', 257], ('mux', 'split')), (['sort', 'k', True], ('plain',))]
        for j in range(k):
            if j % 80 == 40:
                # parameters beyond CPython's small-int cache (257+) on sequences of ~1100 items
                node, modes = big[(j // 80) % len(big)]
                yield {'op': node, 'mode': modes[(j // (80 * len(big))) % len(modes)],
                       'seq': [rng.choice([0, 1, 2, None, 3, 4, 5, rng.randint(0, 400)]) for _ in range(rng.choice([700, 1100, 2001]))],
                       'gseed': rng.randrange(1 << 30)}
                continue
            node, modes = VARIANTS[j % len(VARIANTS)]
            mode = modes[(j // len(VARIANTS)) % len(modes)]
            n = node[1] if node[0] in ('batch', 'take', 'lag') and isinstance(node[1], int) and node[1] > 0 else rng.randint(1, 5)
            ln = rng.choice([n * rng.randint(1, 5) + d for d in (-1, 0, 0, 1)] + [rng.randint(5, 40)])
            ln = max(0, ln)
            seq = [rng.choice(SYMS + [3, 4, 5]) for _ in range(ln)]
            case = {'op': node, 'mode': mode, 'seq': seq, 'gseed': rng.randrange(1 << 30)}
            if j % 6 == 1 and node[0] != 'sort':
                # unusual but legal values: negative ints whose hashes collide (-1 / -2), multiples of 2**61-1 (all hash to 0),
                # bools and floats equal to ints
                case['seq'] = [rng.choice([-1, -2, -1, -2, 0, 2 ** 61 - 1, 2 * (2 ** 61 - 1), 1, 1.0, True, None, -3]) for _ in range(ln)]
            elif j % 6 == 3 and node[0] in ('distinct', 'duc', 'first', 'last', 'take', 'lag', 'batch') and node[1:2] not in (['isnone'], ['par']):
                case['conv'] = 'np'              # numpy.int64 items (== / != return numpy.bool_)
                case['seq'] = [x for x in case['seq'] if x is not None]
            yield case

    def evaluate(self, case):
        out = Outcome()
        node, mode, seq = case['op'], case['mode'], case['seq']
        prelude = case.get('prelude')
        prelude_tags(case, out)
        if case.get('npparam') and node[0] in progs.NP_PARAM_POS:
            out.tags.append('numpy-typed-parameters')
        name = node[0]
        out.tags += [name, mode]
        if name == 'start_with' and len(node) > 2:
            out.tags.append('padding-as-' + node[2])
        if (name in ('pad_start', 'pad_end') and isinstance(node[2], dict)) or (name == 'start_with' and any(isinstance(v, dict) for v in node[1])):
            out.tags.append('padding-value-that-is-callable')
        if not seq:
            out.tags.append('empty')
        if None in seq:
            out.tags.append('has-None')
        if name in ('batch', 'take') and node[1] and seq and len(seq) % node[1] == 0:
            out.tags.append('len-multiple-of-n')
        if len(seq) >= 2:
            out.nontrivial = True
        if len(seq) >= 500:
            out.tags.append('scale')
        if case.get('conv') == 'np':
            import numpy
            seq = [numpy.int64(x) for x in seq]
            out.tags.append('numpy-items')
        if any(isinstance(x, int) and not isinstance(x, bool) and x < 0 for x in seq):
            out.tags.append('negative-values')
        if name == 'sort':
            # (key, tag) pairs: equal keys keep their source order iff the sort is stable
            seq = [((x or 0), j) for j, x in enumerate(seq)]

        if mode == 'sections':
            # two consecutive store sections inside ONE multiplexed stream (two groups of states kept in different stores): the
            # operator under test sits in the second one, behind a stateful pass-through in the first
            out.tags.append('two-store-sections')
            op = self._op(node, case)
            first = rs.state.with_memory_store([rs.ops.scan(lambda a, i: i, None)])
            s = progs.run_obs(lambda src: src.pipe(rs.ops.multiplex([first, rs.state.with_memory_store([op])])), seq, prelude=prelude)
            if s.err is not None or not s.done:
                return out.fail('operator-errored', op=node, mode=mode, seq=seq, error=repr(s.err), done=s.done)
            want = list_def(node, seq)
            out.observed['sequences_compared'] += 1
            if norm(s.out) != norm(want):
                out.fail('differs-from-list-definition', op=node, mode=mode, seq=seq, want=want, got=s.out)
            return out
        if mode in ('plain', 'mux'):
            if mode == 'plain' and name in ('first', 'last') and not seq:
                out.discarded = 'first/last on an empty plain observable raise by design'
                return out
            op = self._op(node, case)
            if mode == 'plain':
                s = progs.run_obs(lambda src: src.pipe(op), seq, prelude=prelude)
            else:
                s = progs.run_obs(lambda src: src.pipe(rs.state.with_memory_store([op])), seq, prelude=prelude)
            if s.err is not None or not s.done:
                return out.fail('operator-errored', op=node, mode=mode, seq=seq, error=repr(s.err), done=s.done)
            want = list_def(node, seq)
            out.observed['sequences_compared'] += 1
            if norm(s.out) != norm(want):
                out.fail('differs-from-list-definition', op=node, mode=mode, seq=seq, want=want, got=s.out)
            elif mode == 'mux' and len(seq) <= 60 and not prelude and norm(progs.subscribe_list(rs.state.with_memory_store([rs.ops.tee_map([op], join='merge')]), seq)) != norm(want):
                # the operator as the HEAD of a tee_map branch (its source is then the proxy of a published multiplexed observable,
                # a subclass of MuxObservable): a single branch merged is the branch
                out.fail('differs-from-list-definition-at-the-head-of-a-tee_map-branch', op=node, mode=mode, seq=seq, want=want,
                         got=progs.subscribe_list(rs.state.with_memory_store([rs.ops.tee_map([op], join='merge')]), seq))
            elif len(seq) <= 60 and not prelude:
                # three streams with staggered lifetimes through the SAME operator object (a long-lived stream open, a second
                # one starting and ending meanwhile, a third one starting before the first ends): each owes the list definition
                wrap = (lambda src: src.pipe(op)) if mode == 'plain' else (lambda src: src.pipe(rs.state.with_memory_store([op])))
                t = progs.staggered_subscriptions(wrap, seq, out, name, lambda xs: norm(list(xs)))
                if t is not None and t != norm(want):
                    out.fail('differs-from-list-definition-with-staggered-streams-through-one-operator', op=node, mode=mode, seq=seq, want=want)
            return out

        if mode in ('roll', 'split'):
            # the operator serves successive lifetimes of ONE key slot (windows / segments): each lifetime's
            # output must be the list definition applied to that lifetime's items alone
            from ..muxmon import lifetimes
            head, tail = [], []
            op = self._op(node, case)
            inner = [tap(head), op, tap(tail)]
            ctx = rs.data.roll(2, 2, inner) if mode == 'roll' else rs.data.split(KEYF['par'], inner)
            s = progs.run_obs(lambda src: src.pipe(rs.state.with_memory_store([ctx])), seq, prelude=prelude, logs=(head, tail))
            if s.err is not None or not s.done:
                return out.fail('operator-errored', op=node, mode=mode, seq=seq, error=repr(s.err), done=s.done)
            hl, odd1 = lifetimes(head)
            tl, odd2 = lifetimes(tail)
            if odd1 or odd2 or len(hl) != len(tl):
                return out.fail('lifetimes-do-not-pair-up', op=node, mode=mode, seq=seq, odd=[repr(o) for o in (odd1 + odd2)[:3]])
            for lt, t in zip(hl, tl):
                want = list_def(node, lt.items)
                out.observed['sequences_compared'] += 1
                if norm(t.items) != norm(want):
                    return out.fail('differs-from-list-definition', op=node, mode=mode, lifetime_items=lt.items, want=want, got=t.items, seq=seq)
            return out

        # group mode: 2-3 groups, the case's sequence plus rotations of it, interleaved
        r = random.Random(case['gseed'])
        ng = r.choice([2, 3])
        seqs = [seq] + [[(x if x is None else (x + g) % 3) for x in seq[g:] + seq[:g]][:r.randint(0, len(seq))] for g in range(1, ng)]
        pairs = gen.interleave_keys(r, seqs, r.choice(gen.INTERLEAVINGS))
        items = [(g, v) for g, v in pairs]
        if name in ('pad_start', 'pad_end') and node[2] is not None and not isinstance(node[2], dict):
            node = [name, node[1], ('pad', node[2])]
        head, tail = [], []
        op = self._op(node, case)
        s = progs.run_obs(lambda src: src.pipe(rs.state.with_memory_store(
            [rs.ops.group_by(lambda i: i[0], [tap(head), op, tap(tail)])])), items, prelude=prelude, logs=(head, tail))
        if s.err is not None or not s.done:
            return out.fail('operator-errored', op=node, mode=mode, items=items, error=repr(s.err), done=s.done)
        got = {g: [] for g in range(ng)}
        keymap = {}
        for e in head:
            if e[0] == 'N':
                keymap[e[1]] = e[2][0]          # which group this inner key serves, read off the items it receives
        for e in tail:
            if e[0] == 'N':
                g = keymap.get(e[1])
                if g is None:
                    return out.fail('output-for-an-unknown-group-key', key=repr(e[1]))
                got[g].append(e[2])
        for g in range(ng):
            gi = [(g, v) for v in seqs[g]]
            want = list_def(node, gi)
            out.observed['sequences_compared'] += 1
            if norm(got[g]) != norm(want):
                out.fail('differs-from-list-definition', op=node, mode=mode, group=g, seq=gi, want=want, got=got[g], items=items)
                return out
        return out

    _opcache = {}

    def _op(self, node, case):
        """ONE operator object per (operator, parameters) serves every case and every mode of the run - plain sources,
        multiplexed ones, windows, groups - as a module-level `head = rs.ops.take(2)` would in an application.
        With `npparam` the size parameters are numpy integers."""
        import json
        if case.get('npparam'):
            node = progs.np_params(node, case['npparam'])
        key = json.dumps([repr(x) for x in node]) + str(case.get('npparam'))
        if key not in self._opcache:
            self._opcache[key] = build_op(node)
        return self._opcache[key]

    box_done = 0

    def extra_evidence(self):
        return {'shards_that_enumerated_their_part_of_the_box_completely': self.box_done}

    def shrink(self, case):
        yield from shrink_prelude(case)
        seq = case['seq']
        for k in range(len(seq)):
            yield dict(case, seq=seq[:k] + seq[k + 1:])
        if case['mode'] == 'group':
            yield dict(case, mode='mux')


CHECK = C10()

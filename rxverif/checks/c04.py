"""C04 - group_by partitions the stream by key, preserving order within each group.

Events : create / item / completed of every group key at the head of group_by's inner pipeline, the
         items group_by received and its output (to_list per group, or a per-item pipeline), one log.
Oracle : partition by linear scan with == (no dict, independent of hashing): every item in exactly
         one group, the group of all items with == keys, source order inside a group, one group per
         distinct key, groups created at first appearance, each item delivered while it is processed;
         groups still open complete when the parent completes, in first-appearance order; with
         to_list the output is the groups in that order; with a per-item pipeline the output is in
         source order.
"""
from ..common import Check, Outcome, bootstrap, norm, with_prelude, with_reuse, prelude_tags, shrink_prelude, PRELUDE_TAGS, PRELUDE_RULE
from .. import windows, model, progs

rs = bootstrap()

KEYS = ['mod:%d', 'kt:%d', 'ks:%d', 'kbig:%d', 'kf:%d', 'kmix:%d', 'kneg:%d', 'kmers:%d', 'ktneg:%d', 'knp:%d', 'kcent:%d', 'kobj:%d', 'kcls:%d', 'ksloppy:%d']


def expected_groups(xs, keyf):
    return [{'idx': idx, 'close': len(xs)} for _, idx, _ in model.group_partition(xs, keyf)]


class C04(Check):
    ID = 'C04'
    LEVEL = 'exploration'
    BUDGET = {'quick': 75, 'thorough': 240}
    RULE = ('case = (key mapper, stream, parent context, inner pipeline). Key mappers return values that are equal but not identical objects: 1-tuples built per item, '
            'ints > 2^40 computed at run time, float(i%k), strings built with %, and int for even / float for odd items (1 == 1.0: same group), numpy.int64 keys, ints of mixed sign, and DIFFERENT keys whose hashes collide (-1 / -2, multiples of 2**61-1, tuples of those); 1..200 distinct keys (every 60th case 300 or 1000 keys); '
            '0..400 items; group_by at top level, nested in group_by, in roll (key slots reused by successive windows: w != s and w == s), in split, group_by>roll; inner pipeline '
            'to_list (groups flushed at completion) or a per-item map (output in source order). non-trivial = some key lifetime has >= 2 groups each with >= 2 items; '
            'distinct = hash of the case')
    RULE += PRELUDE_RULE
    ASSUMPTIONS = ['keys are hashable and == is an equivalence on them (NaN / unhashable keys are outside the statement)']
    ANCHORS = ['rxsci/operators/group_by.py', 'rxsci/operators/multiplex.py', 'rxsci/state/memory_store.py']
    REQUIRED_TAGS = ['consumer-runs-a-pipeline-built-with-the-same-operator-object', 'top', 'group', 'roll', 'roll_eq', 'split', 'key=kt', 'key=ks', 'key=kbig', 'key=kf', 'key=kmix', 'key=kneg', 'key=kmers', 'key=ktneg', 'key=knp', 'key=kcent', 'key=kobj', 'key=kcls', 'key=ksloppy', 'equal-items-different-keys', 'over-65536-keys', 'a-parent-slot-re-created-over-65536-times', 'per-item', 'to_list',
                     'many-keys', 'empty', 'over-256-keys'] + ['operator-object-used-in-two-pipelines'] + ['history-fed-more-than-the-judged-stream'] + PRELUDE_TAGS + ['prelude:overlap']
    REQUIRED_OBSERVED = ['child_lifetimes_checked', 'parent_lifetimes_checked', 'groups_flushed_at_completion']

    def generate(self, rng, tier, shard, nshards):
        return with_prelude(with_reuse(self._generate(rng, tier, shard, nshards)), rng, overlap=True)

    def _generate(self, rng, tier, shard, nshards):
        k = 2600 if tier == 'quick' else 10 ** 7
        names = ['top', 'group', 'roll', 'roll_eq', 'split', 'group>roll', 'roll>group', 'top']
        for j in range(k):
            if j == 3 or (tier == 'thorough' and j % 4000 == 40):
                # more than 65536 groups open at the same time (a high-cardinality key): 16-bit index fields, free lists, block walks
                n_keys = 66000 + rng.randint(0, 3000)
                yield {'key': 'mod:%d' % (n_keys + 7), 'parent': 'top', 'parent_node': None, 'items': list(range(n_keys)) + [5, 70, 65540], 'inner': 'per-item',
                       'watchdog_s': 300}
                continue
            if j == 7 and shard == 0:
                # a parent slot re-created 65536 times and more (group_by under roll(2, 2) on 131 000 items) with a key that occurs in
                # the first window only - and again exactly 65536 windows later: generation stamps of 16 bits, lazily dropped entries
                yield {'recreated': 65536 + 3, 'key': 'mod:2', 'parent': 'roll_eq', 'parent_node': None, 'items': [], 'inner': 'to_list', 'watchdog_s': 300}
                continue
            if tier == 'thorough' and shard == 0 and j == 5:
                # more than 2**20 groups open at the same time (a flat group_by on a user id), then items for the first ones again
                n_keys = (1 << 20) + 5
                yield {'key': 'mod:%d' % (n_keys + 7), 'parent': 'top', 'parent_node': None, 'items': list(range(n_keys)) + [5, 70, 65540, 1048577, 0],
                       'inner': 'per-item', 'watchdog_s': 600}
                continue
            name = names[j % len(names)]
            nk = rng.choice([1, 2, 3, 5, 8, 40, 200]) if j % 60 != 6 else rng.choice([300, 1000])
            n = rng.choice([0, 1, 3, 10, 30, 80, 200, 400]) if nk >= 40 else rng.choice([0, 1, 3, 10, 30, 80])
            if nk >= 300:
                n = rng.choice([1200, 2500])        # more than 256 groups alive: group indices beyond the small-int cache / first growth block
                name = ['top', 'group', 'split'][(j // 60) % 3]
            hi = max(nk * 2, 12)
            items = [rng.randint(0, hi) for _ in range(n)]
            if j % 11 == 5 and nk < 300:
                # items that are EQUAL (same hash) while the key mapper tells them apart: (g, 1) / (g, 1.0) / (g, True) keyed by the
                # type of the second field.  Only under parents that do not compute on the items.
                name = rng.choice(['top', 'roll', 'roll_eq'])
                yield {'key': 'ktype', 'parent': name, 'parent_node': windows.PARENTS[name](rng), 'items': items, 'inner': 'to_list',
                       'itemform': 'equal-items-different-keys', 'nk': nk}
                continue
            # (key kind and inner pipeline are drawn: taken from j they beat with the parent turn j % 8 - hash-colliding keys were
            # only ever seen with a per-item inner pipeline and never at the top level)
            yield {'key': rng.choice(KEYS) % nk, 'parent': name, 'parent_node': windows.PARENTS[name](rng),
                   'items': items, 'inner': 'to_list' if rng.random() < 0.67 else 'per-item'}

    def _eval_recreated(self, case, out):
        import rx
        from ..common import Snap, subscribe
        nwin = case['recreated']
        out.tags += ['roll_eq', 'key=mod', 'to_list', 'a-parent-slot-re-created-over-65536-times']
        out.nontrivial = True
        rare_at = {0, 2 * 65536, 2 * 65536 + 1}
        keyf = (lambda i: 'rare' if i in rare_at else i % 2)
        items = list(range(2 * nwin))
        snap = subscribe(rx.from_(items).pipe(rs.state.with_memory_store([rs.data.roll(2, 2, [rs.ops.group_by(keyf, [rs.data.to_list()])])])), Snap())
        if snap.err is not None or not snap.done:
            return out.fail('group_by:stream-error', error=repr(snap.err), done=snap.done, windows=nwin)
        want = []
        for w in range(nwin):
            groups = {}
            for i in (2 * w, 2 * w + 1):
                groups.setdefault(keyf(i), []).append(i)
            want += list(groups.values())
        out.observed['parent_lifetimes_checked'] += nwin
        out.observed['groups_flushed_at_completion'] += len(want)
        if snap.out != want:
            k_ = next((i for i, (a, b) in enumerate(zip(snap.out, want)) if a != b), min(len(snap.out), len(want)))
            return out.fail('group_by:groups-of-a-re-created-parent-slot-differ', first_difference=k_, got=snap.out[max(0, k_ - 1):k_ + 3], want=want[max(0, k_ - 1):k_ + 3],
                            n_got=len(snap.out), n_want=len(want))
        return out

    def evaluate(self, case):
        out = Outcome()
        if case.get('recreated'):
            return self._eval_recreated(case, out)
        items = case['items']
        keyf = progs.fn(case['key'])
        if len(items) > 60000:
            # the light form for very many groups: every group's per-item output, in source order, and a clean completion
            # (the three-tap observation is quadratic in the number of groups)
            out.tags += ['top', 'key=mod', 'per-item', 'over-65536-keys'] + (['over-2**20-keys'] if len(items) > (1 << 20) else [])
            out.nontrivial = True
            import rx
            from ..common import Snap, subscribe
            snap = subscribe(rx.from_(items).pipe(rs.state.with_memory_store([rs.ops.group_by(keyf, [rs.ops.map(lambda x: x + 100), rs.ops.count()])])), Snap())
            if snap.err is not None or not snap.done:
                return out.fail('group_by:stream-error', error=repr(snap.err), done=snap.done, groups=len(set(keyf(x) for x in items)))
            seen = {}
            want = []
            for x in items:
                seen[keyf(x)] = seen.get(keyf(x), 0) + 1
                want.append(seen[keyf(x)])
            out.observed['parent_lifetimes_checked'] += 1
            out.observed['groups_flushed_at_completion'] += len(seen)
            if snap.out != want:
                k_ = next((i for i, (a, b) in enumerate(zip(snap.out, want)) if a != b), min(len(snap.out), len(want)))
                return out.fail('group_by:per-group-count-differs', first_difference=k_, got=snap.out[k_:k_ + 5], want=want[k_:k_ + 5], n_got=len(snap.out), n_want=len(want))
            return out
        if case.get('itemform'):
            nk_ = max(1, min(case['nk'], 5))
            items = [(x % nk_, [1, 1.0, True][(x // nk_) % 3]) for x in items]
            out.tags.append(case['itemform'])
        out.tags += [case['parent'].split('>')[0], 'key=' + case['key'].split(':')[0], case['inner']]
        if not items:
            out.tags.append('empty')
        inner = [['to_list']] if case['inner'] == 'to_list' else [['map', 'add:100']]
        if case.get('reuse'):
            out.tags.append('operator-object-used-in-two-pipelines')
        ob = windows.observe(case['parent_node'], ['group_by', case['key'], None], items, inner=inner, prelude=case.get('prelude'), reuse=bool(case.get('reuse')))
        prelude_tags(case, out)
        if ob.snap.err is not None or not ob.snap.done:
            return out.fail('group_by:stream-error', error=repr(ob.snap.err), done=ob.snap.done)
        if ob.odd or ob.orphans:
            return out.fail('group_by:events-outside-a-group-lifetime', odd=[repr(o) for o in ob.odd[:5]],
                            orphans=[repr(c.key) for c in ob.orphans[:5]])
        if ob.monitor.violations:
            return out.fail('group_by:mux-protocol-violated', violations=ob.monitor.violations[:3])
        for p in ob.parents:
            exp = expected_groups(p.xs, keyf)
            out.observed['parent_lifetimes_checked'] += 1
            out.observed['groups_flushed_at_completion'] += len(exp)
            if sum(1 for e in exp if len(e['idx']) >= 2) >= 2:
                out.nontrivial = True
            if len(exp) >= 30:
                out.tags.append('many-keys')
            if len(exp) > 256:
                out.tags.append('over-256-keys')
            if len(exp) > 65536:
                out.tags.append('over-65536-keys')
            if windows.check_partition(out, ob, p, exp, 'group_by', check_outputs=(case['inner'] == 'to_list')):
                return out
            if case['inner'] != 'to_list':
                want = [x + 100 for x in p.xs]
                if norm(p.outs or []) != norm(want):
                    return out.fail('group_by:per-item-output-not-in-source-order', want=want[:30], got=(p.outs or [])[:30],
                                    parent_key=repr(p.key))
            # one group per distinct key value: the group indices handed to live groups are distinct
            idxs = [c.key[0] for c in p.children]
            if len(set(idxs)) != len(idxs):
                return out.fail('group_by:two-groups-of-one-lifetime-share-an-index', indices=idxs[:20])
        out.observed['events_logged'] += len(ob.log)
        if case['parent'] == 'top' and len(items) <= 150 and not out.failures:
            out.tags.append('consumer-runs-a-pipeline-built-with-the-same-operator-object')
            windows.nested_consumer(['group_by', case['key'], None], items, items[:(len(items) * 2) // 3 + 1], out, 'group_by', inner=inner)
        return out

    def shrink(self, case):
        yield from shrink_prelude(case)
        items = case['items']
        step = max(1, len(items) // 8)
        while step >= 1:
            for k in range(0, len(items), step):
                yield dict(case, items=items[:k] + items[k + step:])
            step //= 2
        if case['parent'] != 'top':
            yield dict(case, parent='top', parent_node=None)


CHECK = C04()

"""C20 - Parquet dump/load round-trips rows for every row count and batch size.

Events : rows delivered by parquet.load_from_file (several load batch sizes); rows an independent
         reader (pyarrow.parquet.read_table) finds in the file written by dump_to_file.
Oracle : both == the source rows, once each, in order.
"""
import os
import random
import shutil
import tempfile

import rx

from ..common import FILE_NAME_TAGS, Check, Outcome, Snap, subscribe, subscribe2, bootstrap, norm, WORK

rs = bootstrap()
from ..progs import call          # noqa: E402  (positional / keyword calling conventions, see progs.call)
import pyarrow as pa                     # noqa: E402
import pyarrow.parquet as pq             # noqa: E402

SCHEMAS = {
    'flat': lambda: pa.schema([('i', pa.int64()), ('s', pa.string()), ('f', pa.float64())]),
    'nested': lambda: pa.schema([
        ('i', pa.int64()), ('s', pa.string()), ('f', pa.float64()),
        ('st', pa.struct([('a', pa.int32()), ('b', pa.string())])),
        ('l', pa.list_(pa.int64())),
        # floats INSIDE nested values, with NaN and infinities next to nulls: a NaN is a value, a null is a null, at every depth
        ('lf', pa.list_(pa.float64())), ('sf', pa.struct([('x', pa.float64()), ('n', pa.int32())])),
    ]),
    'single': lambda: pa.schema([('i', pa.int64())]),
    # field ATTRIBUTES beyond name and type: a required (NOT NULL) column and field metadata, as a schema read back with
    # pq.read_schema() or mirrored from a database table has them
    'required': lambda: pa.schema([pa.field('i', pa.int64(), nullable=False), pa.field('s', pa.string(), metadata={'origin': 'db'}),
                                   pa.field('f', pa.float64())], metadata={'table': 't'}),
    # column names that are also attribute names of the row's own type (dict.values, .items, .keys, .get, .copy ...)
    'dictattr': lambda: pa.schema([('i', pa.int64()), ('values', pa.list_(pa.int64())), ('items', pa.string()), ('keys', pa.float64()), ('get', pa.int64()),
                                   ('copy', pa.string())]),
    # column names as data sets really have them: blanks, punctuation, units in parentheses, '=', a tab, non-ASCII letters - and two
    # names that differ only by such a character
    'oddnames': lambda: pa.schema([('unit price', pa.int64()), ('qty (kg)', pa.string()), ('a b', pa.float64()), ('a_b', pa.int64()),
                                   ('x=y;{z}', pa.string()), ('tab\there', pa.int64()), ('\xe9t\xe9, n\xb0', pa.string())]),
}


def build_rows(spec):
    r = random.Random(spec['rseed'])
    rows = []
    for k in range(spec['rows']):
        row = {'i': k * 7 - 3 if (r.random() < 0.9 or spec['schema'] == 'required') else None}
        if spec['schema'] != 'single':
            row['s'] = r.choice(['', 'a', 'row%d' % k, '€\U0001f600', None, 'x' * r.randint(0, 30)])
            row['f'] = r.choice([0.0, -1.5, k / 3, 1e300, None, r.uniform(-1e3, 1e3)])
        if spec['schema'] == 'dictattr':
            row = {'i': row['i'], 'values': r.choice([[], [k], [k, None, -k], None]), 'items': row['s'], 'keys': row['f'], 'get': k % 7 if k % 5 else None,
                   'copy': 'c%d' % k}
        if spec['schema'] == 'oddnames':
            row = {'unit price': row['i'], 'qty (kg)': row['s'], 'a b': row['f'], 'a_b': k, 'x=y;{z}': 'z%d' % k, 'tab\there': -k, '\xe9t\xe9, n\xb0': row['s']}
        if spec['schema'] == 'nested':
            row['st'] = r.choice([{'a': k % 1000, 'b': 'b%d' % k}, {'a': None, 'b': None}, None])
            row['l'] = r.choice([[], [k], [k, None, -k], None])
            row['lf'] = r.choice([[], [k / 3], [0.33, float('nan'), None], [float('inf'), float('-inf'), float('nan')], None, [float('nan')]])
            row['sf'] = r.choice([{'x': float('nan'), 'n': k % 100}, {'x': 1.5, 'n': None}, {'x': None, 'n': 1}, None, {'x': float('-inf'), 'n': 0}])
        rows.append(row)
    return rows


def dress_rows(spec, rows):
    '''The rows as handed to dump_to_file: any mapping is a row, so the key order of a dict may differ from the
    schema's and from its neighbours', and keys the schema does not name are ignored.'''
    mode = spec.get('rowform', 'uniform')
    if mode == 'uniform':
        return rows
    r = random.Random(spec['rseed'] ^ 0x5a5a)
    out = []
    for k, row in enumerate(rows):
        items = list(row.items())
        if mode in ('mixed_order', 'mixed_extra') and r.random() < 0.4:
            r.shuffle(items)
        elif mode == 'reversed':
            items.reverse()
        if mode == 'mixed_extra' and r.random() < 0.5:
            items.insert(r.randint(0, len(items)), ('not_in_schema', k))
        out.append(dict(items))
    return out


class C20(Check):
    ID = 'C20'
    LEVEL = 'exploration'
    BUDGET = {'quick': 75, 'thorough': 240}
    RULE = ('case = (row count, dump batch_size b, load batch sizes, row_group_size, compression, schema, path|file object, data seed); '
            'row counts from {0,1,2,b-1,b,b+1,2b-1,2b,2b+1,3b,5b, random <= 5000} for b in {1,2,3,7,64,1000,2000, random}; load batch '
            '1..2000; row_group_size None/small; compression none/snappy/gzip/zstd; schemas single int, flat int/string/float, nested '
            'struct+list with nulls; rows are dicts in schema key order, in a per-row shuffled key order, reversed, or with a key the schema does not name. The file is read by load_from_file and, independently, by pyarrow.parquet.read_table. '
            'non-trivial = rows > dump batch_size (several batches written); distinct = hash of the case')
    ASSUMPTIONS = ['pyarrow is trusted as parquet codec and as the independent reader']
    ANCHORS = ['rxsci/container/parquet.py', 'rxsci/data/batch.py']
    REQUIRED_TAGS = FILE_NAME_TAGS + ['loader-built-before-the-dump', 'target-exists-empty'] + ['none', 'snappy', 'gzip', 'zstd', 'rows=0', 'rows<b', 'rows=b', 'rows=kb', 'rows%b!=0', 'path', 'fileobj',
                     'nested', 'required', 'dictattr', 'oddnames', 'row_group', 'rows-with-mixed_order', 'rows-with-mixed_extra', 'rows-with-reversed', 'pushed-source', 'after-a-failed-dump', 'numpy-typed-batch-size', 'file-object-not-at-position-0']
    REQUIRED_OBSERVED = ['rows_compared_rxsci_reader', 'rows_compared_pyarrow_reader']

    def __init__(self):
        self.tmp = None

    def _tmpdir(self):
        if self.tmp is None or not os.path.isdir(self.tmp):
            os.makedirs(WORK, exist_ok=True)
            self.tmp = tempfile.mkdtemp(prefix='c20-', dir=WORK)
            import atexit
            atexit.register(shutil.rmtree, self.tmp, True)
        return self.tmp

    def generate(self, rng, tier, shard, nshards):
        # the file-name classes (common.FILE_NAME_CLASSES) are taken in turn by the cases that write to a path
        turn = shard
        for case in self._gen_cases(rng, tier, shard, nshards):
            if case.get('target') == 'path':
                case = dict(case, fsel=turn)
                turn += 1
            yield case

    def _gen_cases(self, rng, tier, shard, nshards):
        n = 96 if tier == 'quick' else 10 ** 7
        bs = [1, 2, 3, 7, 64, 1000, 2000]
        comps = ['none', 'snappy', 'gzip', 'zstd']
        for k in range(n):
            b = bs[k % len(bs)] if k % 3 else rng.randint(1, 2000)
            cand = [0, 1, 2, b - 1, b, b + 1, 2 * b - 1, 2 * b, 2 * b + 1, 3 * b, 5 * b, rng.randint(0, 5000)]
            rows = cand[(k // len(bs)) % len(cand)]
            rows = max(0, min(rows, 5000))
            if b == 1 and rows > 300:
                rows = rng.randint(0, 300)          # one row group per row: keep files small
            yield {'rows': rows, 'batch': b,
                   'load_batches': sorted({1 if rows <= 400 else 17, rng.randint(1, 2000), max(1, b)}),
                   'row_group_size': rng.choice([None, None, 1, 5, 100]),
                   'compression': comps[k % 4], 'schema': ['flat', 'nested', 'single', 'required', 'dictattr', 'oddnames'][(k // 4) % 6],
                   'target': 'path' if k % 5 else 'fileobj', 'rseed': rng.randrange(1 << 30),
                   'rowform': ['uniform', 'mixed_order', 'uniform', 'mixed_extra', 'reversed'][(k // 2) % 5]}

    def evaluate(self, case):
        from ..common import in_dir
        with in_dir(self._tmpdir()):
            return self._evaluate(case)

    def _evaluate(self, case):
        out = Outcome()
        rows = build_rows(case)
        b = case['batch']
        n = len(rows)
        out.tags += [case['compression'], case['schema'], case['target']]
        out.tags.append('rows=0' if n == 0 else 'rows<b' if n < b else 'rows=b' if n == b else
                        'rows=kb' if n % b == 0 else 'rows%b!=0')
        if case['row_group_size']:
            out.tags.append('row_group')
        if n > b:
            out.nontrivial = True
        src_rows = dress_rows(case, rows)
        rows_before = repr(src_rows)        # (the dump owns its batches, not the caller's rows: they are left as they were)
        if case.get('rowform', 'uniform') != 'uniform' and case['schema'] != 'single' and n >= 2:
            out.tags.append('rows-with-' + case['rowform'])
        schema = SCHEMAS[case['schema']]()
        from ..common import file_path
        path = file_path(self._tmpdir(), 'f.parquet', '.parquet', case.get('fsel', 0) if case['target'] == 'path' else 0, out)
        if os.path.exists(path):
            os.unlink(path)
        P = rs.container.parquet
        kw = dict(schema=schema, batch_size=b, row_group_size=case['row_group_size'], compression=case['compression'])
        if (n + b) % 3 == 0:
            import numpy
            kw['batch_size'] = numpy.int64(b)       # a batch size computed with numpy
            out.tags.append('numpy-typed-batch-size')
        kwl = [(k_, kw[k_]) for k_ in ('schema', 'batch_size', 'row_group_size', 'compression')]     # documented order
        early = {}
        if case['target'] == 'path' and (n + b) % 2:
            # observables are lazy: the loaders are BUILT before the dump runs - the target absent, or present and empty - and
            # subscribed after it (rx.concat(dump, load); a loader built once and subscribed after every dump)
            if (n + b) % 4 == 1:
                open(path, 'wb').close()
                out.tags.append('target-exists-empty')
            out.tags.append('loader-built-before-the-dump')
            early = {lb: call(P.load_from_file, [('filename', path), ('batch_size', lb)]) for lb in case['load_batches']}
        if case['target'] == 'path' and n % 2:
            from ..progs import dump_pushed
            out.tags.append('pushed-source')
            w = dump_pushed(lambda o: o.pipe(call(P.dump_to_file, [('filename', path)] + kwl)), src_rows, path, out, 'parquet.dump_to_file')
            if out.failures:
                return out
        elif case['target'] == 'path' and n % 4 == 2:
            # the same piped dump is subscribed again (retry) after a first attempt died of a row the schema rejects:
            # the file of the second, clean attempt must hold the source rows and nothing of the first attempt
            out.tags.append('after-a-failed-dump')
            attempts = []
            r2 = random.Random(case['rseed'] ^ 0x77)
            bad_at = r2.randint(0, n)
            bad = r2.choice([None, {'not_in_schema': 1}, 5])

            def source(_scheduler=None):
                attempts.append(1)
                if len(attempts) == 1:
                    return rx.from_(src_rows[:bad_at] + [bad] + src_rows[bad_at:])
                return rx.from_(src_rows)
            dump = rx.defer(source).pipe(call(P.dump_to_file, [('filename', path)] + kwl))
            first = subscribe(dump, Snap())
            # (whether a malformed row is rejected is not part of the property: if the first attempt went through,
            # the second one is judged all the same)
            out.observed['first_attempts_that_failed'] += int(first.err is not None)
            w = subscribe(dump, Snap())
        elif case['target'] == 'path':
            w = subscribe(rx.from_(src_rows).pipe(call(P.dump_to_file, [('filename', path)] + kwl)), Snap())
        else:
            with open(path, 'wb') as f:
                w = subscribe(rx.from_(src_rows).pipe(call(P.dump_to_file, [('filename', f)] + kwl)), Snap())
        if w.err is not None or not w.done:
            return out.fail('dump_to_file-failed', error=repr(w.err), done=w.done)
        out.observed['files_written'] += 1

        def compare(kind, got):
            if len(got) != n:
                return out.fail('row-count-differs', mech=None, reader=kind, want=n, got=len(got),
                                got_head=[r.get('i') for r in got[:12]])
            for i, (a, g) in enumerate(zip(rows, got)):
                out.observed['rows_compared_' + kind] += 1
                if norm(a) != norm(g):
                    return out.fail('row-differs', reader=kind, index=i, want=a, got=g)
            return None

        try:
            with open(path, 'rb') as fref:       # (a file object: pyarrow's own path handling takes 'name:...' for a URI)
                ref = pq.read_table(fref).to_pylist()
        except Exception as e:          # noqa: BLE001
            return out.fail('file-not-readable-by-pyarrow', error=repr(e))
        if compare('pyarrow_reader', ref):
            return out
        out.observed['source_rows_compared_after_the_dump'] += len(src_rows)
        if repr(src_rows) != rows_before:
            return out.fail('dump-changed-the-rows-it-was-given', before=rows_before[:300], after=repr(src_rows)[:300])
        for lb in case['load_batches']:
            if case['target'] == 'path':
                g = subscribe2(early.get(lb) or call(P.load_from_file, [('filename', path), ('batch_size', lb)]), out, 'load_from_file', same=lambda x, y: repr(x) == repr(y), abuse=(lb == case['load_batches'][0]))
            else:
                with open(path, 'rb') as f:
                    if (n + lb) % 3 == 0:
                        # a file object whose position is NOT the start: at end-of-file (the object a dump just wrote to,
                        # handed over without seek(0)) or somewhere in the middle - parquet readers seek absolutely
                        f.seek(0, 2) if n % 2 else f.seek(min(7, os.path.getsize(path)))
                        out.tags.append('file-object-not-at-position-0')
                    g = subscribe(call(P.load_from_file, [('filename', f), ('batch_size', lb)]), Snap())
            if g.err is not None or not g.done:
                return out.fail('load_from_file-failed', error=repr(g.err), done=g.done, load_batch=lb)
            out.observed['loads'] += 1
            if compare('rxsci_reader', g.out):
                out.failures[-1]['detail']['load_batch'] = lb
                return out
        return out

    def shrink(self, case):
        for r in (case['rows'] // 2, case['rows'] - 1):
            if 0 <= r < case['rows']:
                yield dict(case, rows=r)
        if case['batch'] > 1:
            yield dict(case, batch=case['batch'] // 2)
            yield dict(case, batch=case['batch'] - 1)
        if case['schema'] != 'single':
            yield dict(case, schema='single')
        if case['row_group_size']:
            yield dict(case, row_group_size=None)
        if case.get('rowform', 'uniform') != 'uniform':
            yield dict(case, rowform='uniform')


CHECK = C20()

"""rxverif - runtime monitors for the C01..C20 properties of maki-nage/rxsci.

See /verif/DESIGN.md.  Entry points:
    python -m rxverif.run <ID> --tier quick|thorough
    python -m rxverif.replay <replay file>
    python -m rxverif.selftest
"""

"""setup_cmd helper: verifies offline that the tree under test and the tools import."""
import sys
from . import common

def main():
    rs = common.bootstrap()
    import rx, hypothesis  # noqa
    print('rxverif setup ok: rxsci', rs.__version__, 'from', rs.__file__)

if __name__ == '__main__':
    try:
        main()
    except Exception as e:
        print('setup failed:', e)
        sys.exit(1)

"""Shared observation machinery for the key-producing operators (roll, split, time_split,
group_by): run the operator X under a parent context with three taps sharing one log,

    parent( [ tap O , X( [ tap I , to_list ] ) , tap T ] )

and reconstruct, for every lifetime of the parent key, the items X received (O), the child
lifetimes X created with what each received and when it was closed (I), and what came out (T).
Used by C04..C07 with their own partition oracle."""
import copy

import rx

from .common import Snap, subscribe, bootstrap, norm
from .muxmon import ttap, tagged_lifetimes, Monitor
from . import progs

rs = bootstrap()


def nest(parent, inner):
    """replace the innermost `None` pipeline of a parent template by `inner`"""
    if parent is None:
        return inner, ()
    p = copy.deepcopy(parent)
    node = p
    path = (0,)
    while node[-1] is not None:
        assert len(node[-1]) == 1
        node = node[-1][0]
        path = path + (0,)
    node[-1] = inner
    return [p], path


class ParentLife:
    def __init__(self, lt):
        self.key = lt.key
        self.xs = lt.items
        self.item_at = lt.item_at
        self.created_at = lt.created_at
        self.closed_at = lt.closed_at
        self.closed = lt.closed
        self.children = []
        self.outs = None
        self.t_closed = None


class Observation:
    def __init__(self):
        self.parents = []
        self.snap = None
        self.log = None
        self.odd = []
        self.monitor = None
        self.orphans = []


def observe(parent, x_node, items, inner=None, monitor=True, prelude=None, reuse=False):
    """x_node: ['roll', w, s, None] etc. (pipeline slot None is filled with [to_list] or `inner`)"""
    log = []
    x = copy.deepcopy(x_node)
    x[-1] = inner if inner is not None else [['to_list']]
    if reuse:
        # ONE operator object serves two pipelines, one after the other, at different nesting depths (a module-level
        # `rolling = rs.data.roll(...)` used at the top level and inside a group_by): first a throw-away run, then the judged one
        x_op = progs.build_node(x, taps={(0,): (ttap(log, 'I'), None)}, path=(0,))
        warm = [x_op] if parent is not None else [rs.ops.group_by(lambda i: 0, [x_op])]
        subscribe(rx.from_(items[:max(3, len(items) // 2)]).pipe(rs.state.with_memory_store(warm)), Snap())
        del log[:]
        x = ['prebuilt', x_op]
    prog, ppath = nest(parent, [x])
    if parent is None:
        taps = {(0,): (ttap(log, 'I'), None)} if not reuse else {}
        ops_ = [ttap(log, 'O')] + progs.build(prog, taps=taps) + [ttap(log, 'T')]
    else:
        taps = {ppath: (ttap(log, 'O'), ttap(log, 'T'))}
        if not reuse:
            taps[ppath + (0,)] = (ttap(log, 'I'), None)
        ops_ = progs.build(prog, taps=taps)
    ob = Observation()
    ob.log = log
    mon = Monitor() if monitor else None
    if prelude:
        # the observable first lives through aborted subscriptions (disposed, source error, failing consumer);
        # the judged subscription comes after them and owes exactly the same events
        src = progs.Controlled()
        obs = src.observable.pipe(rs.state.with_memory_store(ops_))
        progs.play_prelude(obs, src, items, prelude)
        del log[:]
        run = lambda: progs.drive(obs, src, items, Snap())          # noqa: E731
    else:
        run = lambda: subscribe(rx.from_(items).pipe(rs.state.with_memory_store(ops_)), Snap())     # noqa: E731
    if mon:
        with mon:
            ob.snap = run()
    else:
        ob.snap = run()
    if prelude and ob.snap.err is not None:
        # an error that the same program also produces without any history is not the history's (see progs.run_mux)
        fresh = observe(parent, x_node, items, inner, monitor, None, reuse)
        if fresh.snap.err is not None:
            return fresh
    ob.monitor = mon
    O, odd_o = tagged_lifetimes(log, 'O')
    I, odd_i = tagged_lifetimes(log, 'I')
    T, odd_t = tagged_lifetimes(log, 'T')
    ob.odd = [('O',) + o for o in odd_o] + [('I',) + o for o in odd_i] + [('T',) + o for o in odd_t]
    ob.parents = [ParentLife(lt) for lt in O]
    by_key = {}
    for p in ob.parents:
        by_key.setdefault(p.key, []).append(p)
    for c in I:
        cands = [p for p in by_key.get(c.key[1], []) if p.created_at < c.created_at]
        if not cands:
            ob.orphans.append(c)
        else:
            cands[-1].children.append(c)
    tk = {}
    for lt in T:
        tk.setdefault(lt.key, []).append(lt)
    for k, ps in by_key.items():
        ts = tk.get(k, [])
        for j, p in enumerate(ps):
            if j < len(ts):
                p.outs = ts[j].items
                p.t_closed = ts[j].closed
    return ob


def check_partition(out, ob, p, expected, what, allow_empty_children=False, check_outputs=True,
                    check_close_order=True):
    """expected: list of dict(idx=[indices into p.xs], close=trigger in 0..len(xs)) - non-empty windows
    in opening order.  Appends failures to `out`; returns True when something failed."""
    xs = p.xs
    n = len(xs)
    kids = list(p.children)
    if allow_empty_children:
        kids = [c for c in kids if c.items]
    info = {'what': what, 'parent_key': repr(p.key), 'parent_items': xs[:40]}
    if len(kids) != len(expected):
        out.fail(what + ':window-count-differs', want=len(expected), got=len(kids),
                 got_windows=[c.items for c in kids][:12], want_windows=[[xs[i] for i in e['idx']] for e in expected][:12], **info)
        return True
    for k, (c, e) in enumerate(zip(kids, expected)):
        want = [xs[i] for i in e['idx']]
        out.observed['child_lifetimes_checked'] += 1
        if norm(c.items) != norm(want):
            out.fail(what + ':window-content-differs', window=k, want=want, got=c.items, **info)
            return True
        if not c.closed:
            out.fail(what + ':window-never-closed', window=k, items=c.items, **info)
            return True
        # every item reaches the window while that source item is being processed
        for j, i in enumerate(e['idx']):
            lo = p.item_at[i]
            hi = p.item_at[i + 1] if i + 1 < n else (p.closed_at if p.closed_at is not None else len(ob.log))
            if not (lo < c.item_at[j] < hi):
                out.fail(what + ':item-delivered-late-or-early', window=k, item_index=i, **info)
                return True
        # closing promptness
        ct = e['close']
        if ct < n:
            lo = p.item_at[ct]
            hi = p.item_at[ct + 1] if ct + 1 < n else (p.closed_at if p.closed_at is not None else len(ob.log))
            if not (lo < c.closed_at < hi):
                out.fail(what + ':window-not-closed-with-its-closing-item', window=k, closing_item_index=ct,
                         closed_after_items=sum(1 for a in p.item_at if a < c.closed_at), **info)
                return True
        else:
            if p.closed_at is None or not (c.closed_at > p.closed_at):
                out.fail(what + ':partial-window-closed-before-key-completion', window=k, **info)
                return True
    if check_close_order:
        closes = [c.closed_at for c in kids]
        if closes != sorted(closes):
            out.fail(what + ':windows-not-closed-in-opening-order',
                     close_positions=closes, windows=[c.items for c in kids][:12], **info)
            return True
    if check_outputs:
        want_out = [[xs[i] for i in e['idx']] for e in expected]
        got_out = p.outs if p.outs is not None else []
        if allow_empty_children:
            got_out = [o for o in got_out if o != []]
        # output order = completion order = opening order
        if norm(got_out) != norm(want_out):
            out.fail(what + ':to_list-output-differs', want=want_out[:12], got=got_out[:12], **info)
            return True
    return False


PARENTS = {
    'top': lambda r: None,
    'group': lambda r: ['group_by', r.choice(['mod:%d', 'kt:%d', 'ks:%d']) % r.randint(2, 4), None],
    'roll': lambda r: ['roll', r.randint(2, 9), r.randint(1, 6), None],
    'roll_eq': lambda r: (lambda w: ['roll', w, w, None])(r.randint(2, 8)),
    'split': lambda r: ['split', 'div:%d' % r.randint(3, 9), None],
    'time_split': lambda r: ['time_split', {'active': r.choice([6, 10]), 'inactive': None, 'closing': None}, None],
    'group>roll': lambda r: ['group_by', 'mod:%d' % r.randint(2, 3), [['roll', r.randint(3, 8), r.randint(1, 8), None]]],
    'roll>group': lambda r: ['roll', r.randint(4, 10), r.randint(2, 10), [['group_by', 'mod:%d' % r.randint(2, 3), None]]],
}


def nested_consumer(x_node, items, inner_items, out, what, inner=None):
    """A consumer that, while it is handed a result, runs ANOTHER, independent pipeline (own source, own subscription, own
    store) to completion - built with the SAME operator object (a module-level `ROLLING = rs.data.roll(...)` used for both
    stages).  The outer source is pushed, the inner one synchronous, so the two really nest; neither re-enters the other's
    subscription.  Metamorphic oracle: the outer run and every inner run deliver what the operator object delivers when each
    stream is processed alone.  x_node is used at the top level of a store section."""
    x = copy.deepcopy(x_node)
    x[-1] = inner if inner is not None else [['to_list']]
    op = progs.build_node(x, path=(0,))
    inner_items = list(inner_items)

    def sync_source(observer, scheduler=None):
        for v in inner_items:
            observer.on_next(v)
        observer.on_completed()

    def alone(xs):
        return subscribe(rx.from_(list(xs)).pipe(rs.state.with_memory_store([op])), Snap())
    want_outer, want_inner = alone(items), alone(inner_items)
    if want_outer.err is not None or want_inner.err is not None:
        return                      # (a domain error of the plain runs: nothing to compare)
    src = progs.Controlled()
    got, inner_runs = Snap(), []

    def consumer(v):
        got.on_next(v)
        if len(inner_runs) < 6:
            inner_runs.append(subscribe(rx.create(sync_source).pipe(rs.state.with_memory_store([op])), Snap()))
    try:
        src.observable.pipe(rs.state.with_memory_store([op])).subscribe(on_next=consumer, on_error=got.on_error, on_completed=got.on_completed)
        for v in items:
            src.push(v)
        src.complete()
    except Exception as e:      # noqa: BLE001
        if got.err is None:
            got.err = e
    out.observed['nested_runs_sharing_the_operator_object'] += len(inner_runs)
    if got.err is not None or not got.done or norm(got.out) != norm(want_outer.out):
        out.fail(what + ':differs-when-the-consumer-runs-another-pipeline-built-with-the-same-operator-object', error=repr(got.err), done=got.done,
                 want=want_outer.out[:12], got=got.out[:12], items=list(items)[:40], inner_items=inner_items[:40])
        return
    for r in inner_runs:
        if r.err is not None or not r.done or norm(r.out) != norm(want_inner.out):
            out.fail(what + ':nested-run-with-the-same-operator-object-differs', error=repr(r.err), done=r.done, want=want_inner.out[:12], got=r.out[:12],
                     items=list(items)[:40], inner_items=inner_items[:40])
            return

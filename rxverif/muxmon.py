"""E1 - boundary monitor for multiplexed streams, tap operator and lifetime reconstruction.

The monitor is installed from the harness: `MuxObservable._subscribe_core` (looked up on the
class at call time, so every instance incl. MuxConnectableProxy is covered) wraps the
subscribing observer in a proxy that sees every on_next / on_error / on_completed the
MuxObservable delivers, i.e. the stream *between two operators*.  Nothing in /repo is edited.
"""
import copy
from collections import Counter

from .common import bootstrap

rs = bootstrap()
from rxsci.state.state_topology import ProbeStateTopology      # noqa: E402

_ACTIVE = None
_ORIG = None


def short_name(subscribe_fn):
    q = getattr(subscribe_fn, '__qualname__', None)
    if q is None:
        f = getattr(subscribe_fn, 'func', None)          # functools.partial
        q = getattr(f, '__qualname__', None) or type(subscribe_fn).__name__
        q = 'partial:' + q
    return q.replace('.<locals>', '')


class Boundary:
    __slots__ = ('name', 'ordinal', 'live', 'slots', 'events', 'closed', 'counts', 'maxlive')

    def __init__(self, name, ordinal, record):
        self.name = name
        self.ordinal = ordinal
        self.live = {}          # key -> True
        self.slots = {}         # key[0] -> key   (live keys only)
        self.events = [] if record else None
        self.closed = None      # 'completed' | 'error'
        self.counts = Counter()
        self.maxlive = 0


class _Proxy:
    __slots__ = ('o', 'b', 'm')

    def __init__(self, observer, boundary, monitor):
        self.o = observer
        self.b = boundary
        self.m = monitor

    def _viol(self, kind, key=None, extra=None):
        self.m.violations.append({'boundary': self.b.name, 'ordinal': self.b.ordinal, 'kind': kind,
                                  'key': repr(key), 'extra': extra, 'event_index': sum(self.b.counts.values())})

    def on_next(self, i):
        b = self.b
        if b.closed is None:
            t = type(i)
            if t is rs.OnNextMux:
                b.counts['next'] += 1
                if i.key not in b.live:
                    self._viol('item-for-a-key-that-is-not-live', i.key, repr(i.item)[:80])
                if b.events is not None:
                    b.events.append(('N', i.key, copy.deepcopy(i.item)))
            elif t is rs.OnCreateMux:
                b.counts['create'] += 1
                k = i.key
                if k in b.live:
                    self._viol('second-creation-of-a-live-key', k)
                else:
                    other = b.slots.get(k[0])
                    if other is not None:
                        self._viol('two-live-keys-share-a-slot-index', k, repr(other))
                b.live[k] = True
                b.slots[k[0]] = k
                if len(b.live) > b.maxlive:
                    b.maxlive = len(b.live)
                if b.events is not None:
                    b.events.append(('C', k))
            elif t is rs.OnCompletedMux:
                b.counts['completed'] += 1
                k = i.key
                if k not in b.live:
                    self._viol('completion-of-a-key-that-is-not-live', k)
                else:
                    del b.live[k]
                    if b.slots.get(k[0]) == k:
                        del b.slots[k[0]]
                if b.events is not None:
                    b.events.append(('D', k))
            elif t is rs.OnErrorMux:
                b.counts['error_mux'] += 1
                if i.key not in b.live:
                    self._viol('error-for-a-key-that-is-not-live', i.key, repr(i.error)[:80])
                if b.events is not None:
                    b.events.append(('E', i.key, repr(i.error)))
            elif t is ProbeStateTopology:
                b.counts['probe'] += 1
            else:
                b.counts['alien'] += 1
                self._viol('not-a-mux-event', None, repr(i)[:80])
        self.o.on_next(i)

    def on_error(self, e):
        b = self.b
        if b.closed is None:
            b.closed = 'error'
            b.counts['on_error'] += 1
            if b.events is not None:
                b.events.append(('error', repr(e)))
        self.o.on_error(e)

    def on_completed(self):
        b = self.b
        if b.closed is None:
            b.closed = 'completed'
            b.counts['on_completed'] += 1
            if b.live:
                self._viol('stream-completed-with-live-keys', None, repr(sorted(b.live, key=repr))[:200])
            if b.events is not None:
                b.events.append(('done',))
        self.o.on_completed()

    # RxPY internals occasionally look at these on the observer they were given
    def __getattr__(self, name):
        return getattr(self.o, name)


class Monitor:
    """with Monitor(record=False) as m: ... run pipelines ...; m.violations, m.boundaries"""

    def __init__(self, record=False):
        self.record = record
        self.boundaries = []
        self.violations = []

    def __enter__(self):
        install()
        global _ACTIVE
        self._prev = _ACTIVE
        _ACTIVE = self
        return self

    def __exit__(self, *a):
        global _ACTIVE
        _ACTIVE = self._prev
        return False

    def kinds(self):
        c = Counter()
        for b in self.boundaries:
            c[b.name] += 1
        return c

    def event_counts(self):
        c = Counter()
        for b in self.boundaries:
            c.update(b.counts)
        return c


class suspended:
    """with suspended(): subscriptions made inside are not monitored (the aborted subscriptions of a history
    prelude - a consumer that raises is a user function that raises, which the protocol property excludes)."""

    def __enter__(self):
        global _ACTIVE
        self._prev = _ACTIVE
        _ACTIVE = None

    def __exit__(self, *a):
        global _ACTIVE
        _ACTIVE = self._prev
        return False


def _patched(self, observer, scheduler=None):
    m = _ACTIVE
    if m is None:
        return _ORIG(self, observer, scheduler)
    b = Boundary(short_name(self._subscribe), len(m.boundaries), m.record)
    m.boundaries.append(b)
    return _ORIG(self, _Proxy(observer, b, m), scheduler)


def install():
    global _ORIG
    if _ORIG is None:
        _ORIG = rs.MuxObservable._subscribe_core
        rs.MuxObservable._subscribe_core = _patched


# ---------------------------------------------------------------------------
# harness operator: pass-through MuxObservable that records what goes by

def tap(log, deep=True):
    """pass-through MuxObservable that records what goes by.  When the same observable is subscribed again while an
    earlier subscription is still alive (a consumer swap), only the LATEST subscription writes to the log: rxsci's
    context operators hand the outer events of one subscription to every live one (their outer Subject belongs to the
    operator), and the judged subscription is the latest."""
    cp = copy.deepcopy if deep else (lambda x: x)

    def _tap(source):
        gen = [0]

        def on_subscribe(observer, scheduler):
            gen[0] += 1
            mine = gen[0]

            def rec(entry):
                if mine == gen[0]:
                    log.append(entry)

            def on_next(i):
                t = type(i)
                if t is rs.OnNextMux:
                    rec(('N', i.key, cp(i.item)))
                elif t is rs.OnCreateMux:
                    rec(('C', i.key))
                elif t is rs.OnCompletedMux:
                    rec(('D', i.key))
                elif t is rs.OnErrorMux:
                    rec(('E', i.key, i.error))
                observer.on_next(i)

            def on_error(e):
                rec(('error', e))
                observer.on_error(e)

            def on_completed():
                rec(('done',))
                observer.on_completed()

            return source.subscribe(on_next=on_next, on_error=on_error, on_completed=on_completed,
                                    scheduler=scheduler)
        return rs.MuxObservable(on_subscribe)
    return _tap


def ttap(log, tag, deep=True):
    """like tap, but several taps share one log (real-time order across boundaries):
    events are (tag, kind, key, payload)"""
    cp = copy.deepcopy if deep else (lambda x: x)

    def _tap(source):
        gen = [0]

        def on_subscribe(observer, scheduler):
            gen[0] += 1
            mine = gen[0]

            def rec(entry):
                if mine == gen[0]:
                    log.append(entry)

            def on_next(i):
                t = type(i)
                if t is rs.OnNextMux:
                    rec((tag, 'N', i.key, cp(i.item)))
                elif t is rs.OnCreateMux:
                    rec((tag, 'C', i.key, None))
                elif t is rs.OnCompletedMux:
                    rec((tag, 'D', i.key, None))
                elif t is rs.OnErrorMux:
                    rec((tag, 'E', i.key, i.error))
                observer.on_next(i)

            def on_error(e):
                rec((tag, 'error', None, e))
                observer.on_error(e)

            def on_completed():
                rec((tag, 'done', None, None))
                observer.on_completed()

            return source.subscribe(on_next=on_next, on_error=on_error, on_completed=on_completed,
                                    scheduler=scheduler)
        return rs.MuxObservable(on_subscribe)
    return _tap


def tagged_lifetimes(log, tag):
    """lifetimes at one tagged boundary of a shared log; positions are indices in the shared log"""
    live = {}
    out = []
    odd = []
    for n, e in enumerate(log):
        if e[0] != tag:
            continue
        k, key = e[1], e[2]
        if k == 'C':
            if key in live:
                odd.append(('create-live', key, n))
            lt = Lifetime(key, n)
            live[key] = lt
            out.append(lt)
        elif k == 'N':
            lt = live.get(key)
            if lt is None:
                odd.append(('item-dead', key, n))
            else:
                lt.items.append(e[3])
                lt.item_at.append(n)
        elif k == 'E':
            lt = live.get(key)
            if lt is None:
                odd.append(('error-dead', key, n))
            else:
                lt.errors.append(e[3])
        elif k == 'D':
            lt = live.pop(key, None)
            if lt is None:
                odd.append(('completed-dead', key, n))
            else:
                lt.closed = True
                lt.closed_at = n
    return out, odd


class Lifetime:
    __slots__ = ('key', 'items', 'errors', 'closed', 'created_at', 'closed_at', 'item_at')

    def __init__(self, key, created_at):
        self.key = key
        self.items = []
        self.errors = []
        self.closed = False
        self.created_at = created_at
        self.closed_at = None
        self.item_at = []


def lifetimes(log):
    """-> (list of Lifetime in creation order, list of protocol oddities).

    A lifetime is bracketed by ('C', key) ... ('D', key) at the tapped boundary."""
    live = {}
    out = []
    odd = []
    for n, e in enumerate(log):
        k = e[0]
        if k == 'C':
            if e[1] in live:
                odd.append(('create-live', e[1], n))
            lt = Lifetime(e[1], n)
            live[e[1]] = lt
            out.append(lt)
        elif k == 'N':
            lt = live.get(e[1])
            if lt is None:
                odd.append(('item-dead', e[1], n))
            else:
                lt.items.append(e[2])
                lt.item_at.append(n)
        elif k == 'E':
            lt = live.get(e[1])
            if lt is None:
                odd.append(('error-dead', e[1], n))
            else:
                lt.errors.append(e[2])
        elif k == 'D':
            lt = live.pop(e[1], None)
            if lt is None:
                odd.append(('completed-dead', e[1], n))
            else:
                lt.closed = True
                lt.closed_at = n
    return out, odd

NOT_BUILT_REASON = 'check not built yet in this session (runtime monitoring applies; see DESIGN.md section 3)'
TABLE = [
 ('C15', 'exploration',
  'Round-trip monitor on the real frame/unframe operators: every cut set of all short streams (exhaustive box) plus single/double and random cuts, empty chunks and every truncation point of longer ones; held = no deviation on the chunkings listed in the evidence.',
  'Trusts RxPY from_/subscribe and the 10-line reference encoder used to cross-check frame(); covers only the chunkings executed.',
  'runtime monitoring: round-trip oracle over enumerated re-chunkings', 'DESIGN.md 3/C15'),
]

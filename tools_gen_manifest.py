#!/usr/bin/env python3
"""Regenerates MANIFEST.json from the table below (kept in one place so it stays valid)."""
import json, os, sys
HERE = os.path.dirname(os.path.abspath(__file__))
PY = '/venv/bin/python'
CHECKS = {}   # filled by register()

HISTORY_A = ('; one case in four is judged AFTER a history of aborted subscriptions of the same observable (disposed mid-stream, source error, '
             'raising consumer, take(n) peek; a third of the histories are fed more than the judged stream - DESIGN.md E6b)')
HISTORY_B = ('; every observable is subscribed, peeked at and abandoned, given a raising consumer, and subscribed again - both full subscriptions must '
             'deliver the same events; two concurrent and three staggered streams through one operator object each owe what a stream processed alone gets; '
             'inputs are compared with an immutable copy after the run (DESIGN.md E6b)')


def register(pid, category, text, note, technique, design_ref):
    n = int(pid[1:])
    technique += HISTORY_A if n <= 11 else HISTORY_B if n >= 15 else ''
    CHECKS[pid] = dict(category=category, text=text, note=note, technique=technique, design_ref=design_ref)

from manifest_table import TABLE, NOT_BUILT_REASON
for row in TABLE:
    register(*row)

props = [json.loads(l)['id'] for l in open(os.path.join(HERE, 'properties.jsonl'))]
checks, na = [], []
for pid in props:
    if pid in CHECKS and os.path.exists(os.path.join(HERE, 'rxverif', 'checks', pid.lower() + '.py')):
        c = CHECKS[pid]
        checks.append({
            'property_id': pid,
            'quick_cmd': '%s -m rxverif.run %s --tier quick' % (PY, pid),
            'thorough_cmd': '%s -m rxverif.run %s --tier thorough' % (PY, pid),
            'evidence_file': 'evidence/%s.json' % pid,
            'replay_cmd_template': '%s -m rxverif.replay {path}' % PY,
            'engine': 'rxverif',
            'level_claimed': {'category': c['category'], 'text': c['text'], 'design_ref': c['design_ref']},
            'level_note': c['note'],
            'technique': c['technique'],
        })
    else:
        na.append({'property_id': pid, 'reason': NOT_BUILT_REASON})
m = {
    'version': 1,
    'setup_cmd': '%s -m compileall -q rxverif && %s -m rxverif.setup_check' % (PY, PY),
    'hooks': {
        'guard': 'RXSCI_VERIF',
        'enable': 'no source hooks: every observation point is installed from the harness at run time '
                  '(MuxObservable._subscribe_core wrapper, tap operators, store_factory, instrumented user functions); '
                  'checks import rxsci from $RXSCI_REPO (default /repo) working tree',
        'baseline_off_cmd': 'cd /repo && /venv/bin/python -m pytest -ra -q -p no:cacheprovider --timeout=900 --continue-on-collection-errors',
        'source_commits': [],
        'add_only': True,
    },
    'engines': [{
        'name': 'rxverif', 'path': 'rxverif/',
        'serves_properties': [c['property_id'] for c in checks],
        'kind_free_text': 'runtime monitoring: generated workloads drive the real rxsci code; boundary monitors, taps, '
                          'shadow store and instrumented user functions record events; deterministic oracles (differential '
                          'plain-vs-mux, lifetime replay, reference models, round-trips, exact rational arithmetic) decide each execution',
    }],
    'checks': checks,
    'notes': 'Exit 0 held / 1 VIOLATION / 2 INCONCLUSIVE (never a violation). KNOWN-FINDING lines come from known_findings.json. '
             'fix: commits in /repo are listed there as fixed entries. See DESIGN.md.',
    'not_applicable': na,
}
json.dump(m, open(os.path.join(HERE, 'MANIFEST.json'), 'w'), indent=1)
print('claimed', [c['property_id'] for c in checks]); print('not claimed', [n['property_id'] for n in na])
